//! C16 (config precedence) and C17 (config round trip) at library level:
//! merge algebra, parse-level layering, one-liner / YAML / front-matter round trips.
//! (The CLI layer of C16 lives in vc_cli.)

use std::collections::BTreeMap;
use std::path::PathBuf;
use std::sync::Arc;
use std::time::Duration;

use scrut::config::{DocumentConfig, OutputStreamControl, TestCaseConfig, TestCaseWait};
use scrut::expectation::ExpectationMaker;
use scrut::parsers::markdown::MarkdownParser;
use scrut::parsers::parser::Parser;
use scrut::rules::registry::RuleRegistry;
use serde::{Deserialize, Serialize};

use crate::core::*;

pub struct VcConfig;

/// 9 merge keys: 7 scalar keys and two environment variables
pub const NKEYS: usize = 9;
pub const KEY_NAMES: [&str; NKEYS] = ["detached", "keep_crlf", "output_stream", "skip_document_code", "strip_ansi_escaping", "timeout", "wait", "environment.A", "environment.B"];

#[derive(Clone, Debug, Serialize, Deserialize, Hash)]
pub enum CfgCase {
    /// layers in precedence order: cli, inline, doc, format; values 0=unset,1,2 for key k1 and k2 (k1==k2: single key)
    Merge { k1: usize, k2: usize, a1: [u8; 4], a2: [u8; 4] },
    /// document config: two explicit layers (doc, cli) of (shell, total_timeout, prepend, append, defaults.output_stream)
    DocMerge { doc: [u8; 5], cli: [u8; 5] },
    /// parse level: inline and front-matter defaults for keys k1,k2 on a markdown or cram base
    Parse { k1: usize, k2: usize, inline: [u8; 2], doc: [u8; 2], cram_base: bool },
    /// C16 at the command line: key 0 = output_stream (1 = stdout, 2 = combined), key 1 = keep_crlf (1 = false, 2 = true);
    /// layers cli / inline / doc (0 = unset) on a Markdown or Cram document, observed through `scrut test -r json`
    Cli { key: u8, cli: u8, inline: u8, doc: u8, cram: bool },
    /// C16 at the command line, all 9 assignments of (inline, front-matter) for both keys on a Markdown document run with --cram-compat; one environment variable across two test cases of a Markdown document: FOO in the document
    /// defaults (0 unset, 1 = doc), inline on the second test case (0 unset, 1 = inline) and what the first test case does
    /// to it (0 nothing, 1 inline FOO=first, 2 `export FOO=shell`, 3 `unset FOO`, 4 `declare -i FOO`); the second test case prints FOO
    EnvAcross { doc: u8, inline2: u8, first: u8 },
    /// C16 at the command line: a Markdown document run with `--cram-compat` (which only changes the format default to
    /// Cram's: combined, CRLF kept) - inline and document defaults still win over it; key / values as in `Cli`
    Compat { key: u8, inline: u8, doc: u8 },
    /// C17: a test-case configuration given as value index per key (0 = unset) in the extended alphabets
    RoundTrip { values: [usize; 8], env_b: usize },
    /// C17: document configuration subsets (shell, total_timeout, prepend, append, defaults) value indices
    DocRoundTrip { values: [usize; 5] },
}

fn merge_value(cfg: &mut TestCaseConfig, key: usize, v: u8) {
    if v == 0 {
        return;
    }
    let first = v == 1;
    match key {
        0 => cfg.detached = Some(first),
        1 => cfg.keep_crlf = Some(first),
        2 => cfg.output_stream = Some(if first { OutputStreamControl::Stderr } else { OutputStreamControl::Combined }),
        3 => cfg.skip_document_code = Some(if first { 81 } else { 82 }),
        4 => cfg.strip_ansi_escaping = Some(first),
        5 => cfg.timeout = Some(Duration::from_secs(if first { 3 } else { 7 })),
        6 => cfg.wait = Some(if first { TestCaseWait { timeout: Duration::from_secs(1), path: None } } else { TestCaseWait { timeout: Duration::from_secs(2), path: Some(PathBuf::from("p")) } }),
        7 => {
            cfg.environment.insert("A".into(), if first { "a1" } else { "a2" }.into());
        }
        8 => {
            cfg.environment.insert("B".into(), if first { "b1" } else { "b2" }.into());
        }
        _ => unreachable!(),
    }
}

fn yaml_value(key: usize, v: u8) -> (&'static str, String) {
    let first = v == 1;
    match key {
        0 => ("detached", first.to_string()),
        1 => ("keep_crlf", first.to_string()),
        2 => ("output_stream", if first { "stderr" } else { "combined" }.into()),
        3 => ("skip_document_code", if first { "81" } else { "82" }.into()),
        4 => ("strip_ansi_escaping", first.to_string()),
        5 => ("timeout", if first { "3s" } else { "7s" }.into()),
        6 => ("wait", if first { "1s".into() } else { "{timeout: 2s, path: p}".into() }),
        7 => ("A", if first { "a1" } else { "a2" }.into()),
        8 => ("B", if first { "b1" } else { "b2" }.into()),
        _ => unreachable!(),
    }
}

/// flow-style YAML body (without braces) for the given key assignments
fn yaml_flow(assign: &[(usize, u8)]) -> String {
    let mut parts = vec![];
    let mut env = vec![];
    for (k, v) in assign {
        if *v == 0 {
            continue;
        }
        let (name, val) = yaml_value(*k, *v);
        if *k >= 7 {
            env.push(format!("{name}: {val}"));
        } else {
            parts.push(format!("{name}: {val}"));
        }
    }
    if !env.is_empty() {
        parts.push(format!("environment: {{{}}}", env.join(", ")));
    }
    parts.join(", ")
}

fn layer(assign: &[(usize, u8)]) -> TestCaseConfig {
    let mut c = TestCaseConfig::empty();
    for (k, v) in assign {
        merge_value(&mut c, *k, *v);
    }
    c
}

// ---------- C17 alphabets

fn durations() -> Vec<Duration> {
    let d = Duration::from_secs;
    vec![
        Duration::ZERO,
        Duration::from_millis(1),
        Duration::from_millis(999),
        d(1),
        d(59),
        d(60),
        d(61),
        d(3600),
        d(86400),
        d(3661) + Duration::from_millis(1),
        d(100 * 86400),
        d(400 * 86400),
        Duration::from_micros(1500),
        Duration::from_nanos(1),
    ]
}

const PATHS: [&str; 15] = ["p", "a b", "a,b", "a: b", "a}b", "é", "/tmp/x y/z", "null", "true", "123", "~", "rel/ok.flag", "-", "/tmp/`x`", "/tmp/a\u{85}b"];
pub const ENV_VALUES: [&str; 24] = ["bar", "q\"uote", "back\\slash", "a: b", "{x}", "a,b", "#c", " lead", "trail ", "'s'", "ü", "", "true", "null", "1", "a #b", "x\\\"y",
    // characters that YAML does not allow raw in a double-quoted scalar or folds, and the one that cannot stand on a fence line
    "a\u{7f}b", "a\u{85}b", "a \u{2028} b", "a\u{9f}b", "a\u{fffe}b", "a`b", "tab\there"];

fn waits() -> Vec<TestCaseWait> {
    let mut v = vec![TestCaseWait { timeout: Duration::from_secs(1), path: None }, TestCaseWait { timeout: Duration::from_secs(90), path: None }];
    for p in PATHS {
        v.push(TestCaseWait { timeout: Duration::from_secs(2), path: Some(PathBuf::from(p)) });
    }
    v
}

/// number of values (excluding "unset") per key in key order:
/// detached, keep_crlf, output_stream, skip_document_code, strip_ansi_escaping, timeout, wait, environment(A)
fn rt_counts() -> [usize; 8] {
    [2, 2, 3, 3, 2, durations().len(), waits().len(), ENV_VALUES.len()]
}

fn rt_config(values: &[usize; 8], env_b: usize) -> TestCaseConfig {
    let mut c = TestCaseConfig::empty();
    if values[0] > 0 {
        c.detached = Some(values[0] == 1);
    }
    if values[1] > 0 {
        c.keep_crlf = Some(values[1] == 1);
    }
    if values[2] > 0 {
        c.output_stream = Some([OutputStreamControl::Stdout, OutputStreamControl::Stderr, OutputStreamControl::Combined][values[2] - 1].clone());
    }
    if values[3] > 0 {
        c.skip_document_code = Some([0, 80, 255][values[3] - 1]);
    }
    if values[4] > 0 {
        c.strip_ansi_escaping = Some(values[4] == 1);
    }
    if values[5] > 0 {
        c.timeout = Some(durations()[values[5] - 1]);
    }
    if values[6] > 0 {
        c.wait = Some(waits()[values[6] - 1].clone());
    }
    if values[7] > 0 {
        c.environment.insert("A".into(), ENV_VALUES[values[7] - 1].into());
    }
    if env_b > 0 {
        c.environment.insert("B_1".into(), ENV_VALUES[env_b - 1].into());
    }
    c
}

fn doc_rt_config(values: &[usize; 5]) -> DocumentConfig {
    let mut d = DocumentConfig::empty();
    if values[0] > 0 {
        d.shell = Some(PathBuf::from(["/bin/sh", "my shell", "é: sh"][values[0] - 1]));
    }
    if values[1] > 0 {
        d.total_timeout = Some([Duration::from_secs(3), Duration::from_secs(900), Duration::from_millis(900_500), Duration::ZERO, Duration::from_secs(901)][values[1] - 1]);
    }
    if values[2] > 0 {
        d.prepend = [vec!["a.md"], vec!["a.md", "dir/b c.md"], vec!["- x: y.md"]][values[2] - 1].iter().map(PathBuf::from).collect();
    }
    if values[3] > 0 {
        d.append = [vec!["z.md"], vec!["z.md", "#y.md"]][values[3] - 1].iter().map(PathBuf::from).collect();
    }
    if values[4] > 0 {
        d.defaults = match values[4] {
            1 => rt_config(&[0, 1, 2, 0, 0, 4, 0, 0], 0),
            2 => rt_config(&[1, 0, 0, 2, 1, 0, 3, 2], 3),
            _ => rt_config(&[0, 0, 0, 0, 0, 10, 0, 10], 4),
        };
    }
    d
}

thread_local! {
    static MD: MarkdownParser = MarkdownParser::new(Arc::new(ExpectationMaker::new(RuleRegistry::default())), &["scrut"], None);
    static MD_CRAM: MarkdownParser = MarkdownParser::new(Arc::new(ExpectationMaker::new(RuleRegistry::default())), &["scrut"], Some(TestCaseConfig::default_cram()));
}

fn parse_md(text: &str, cram: bool) -> Result<Result<(DocumentConfig, Vec<scrut::testcase::TestCase>), String>, String> {
    guard(|| if cram { MD_CRAM.with(|p| p.parse(text)) } else { MD.with(|p| p.parse(text)) }.map_err(|e| format!("{e:#}")))
}

impl Engine for VcConfig {
    type Case = CfgCase;
    fn name(&self) -> &'static str {
        "vc_config"
    }
    fn properties(&self) -> Vec<&'static str> {
        vec!["C16", "C17"]
    }
    fn chunk(&self) -> usize {
        8
    }
    fn relevant(&self, property: &str, case: &CfgCase) -> bool {
        matches!(case, CfgCase::RoundTrip { .. } | CfgCase::DocRoundTrip { .. }) == (property == "C17")
    }
    fn cases(&self, _tier: Tier) -> Box<dyn Iterator<Item = CfgCase> + Send + '_> {
        let mut v = vec![];
        // --- C16 merge algebra
        for k in 0..NKEYS {
            for w in words(3, 4) {
                let a: [u8; 4] = [w[0] as u8, w[1] as u8, w[2] as u8, w[3] as u8];
                v.push(CfgCase::Merge { k1: k, k2: k, a1: a, a2: a });
            }
        }
        for k1 in 0..NKEYS {
            for k2 in k1 + 1..NKEYS {
                for w in words(3, 8) {
                    let a1 = [w[0] as u8, w[1] as u8, w[2] as u8, w[3] as u8];
                    let a2 = [w[4] as u8, w[5] as u8, w[6] as u8, w[7] as u8];
                    v.push(CfgCase::Merge { k1, k2, a1, a2 });
                }
            }
        }
        for w in words(3, 10) {
            let f = |i: usize| w[i] as u8;
            v.push(CfgCase::DocMerge { doc: [f(0), f(1), f(2), f(3), f(4)], cli: [f(5), f(6), f(7), f(8), f(9)] });
        }
        for k1 in 0..NKEYS {
            for k2 in k1..NKEYS {
                for w in words(3, 4) {
                    if k1 == k2 && (w[0] != w[1] || w[2] != w[3]) {
                        continue;
                    }
                    for cram_base in [false, true] {
                        v.push(CfgCase::Parse { k1, k2, inline: [w[0] as u8, w[1] as u8], doc: [w[2] as u8, w[3] as u8], cram_base });
                    }
                }
            }
        }
        for key in 0..2u8 {
            for w in words(3, 3) {
                v.push(CfgCase::Cli { key, cli: w[0] as u8, inline: w[1] as u8, doc: w[2] as u8, cram: false });
            }
            for cli in 0..3u8 {
                v.push(CfgCase::Cli { key, cli, inline: 0, doc: 0, cram: true });
            }
        }
        // document-level keys: 2 = shell (two private copies of bash), 3 = total_timeout (1 = 1 s, 2 = 3 s) against a 2 s command
        // (total_timeout also has 3 = 0 s, which means "no limit": a set value like any other, not "unset")
        for key in 2..4u8 {
            for w in words(if key == 3 { 4 } else { 3 }, 2) {
                v.push(CfgCase::Cli { key, cli: w[0] as u8, inline: 0, doc: w[1] as u8, cram: false });
            }
        }
        for key in 0..2u8 {
            for w in words(3, 2) {
                v.push(CfgCase::Compat { key, inline: w[0] as u8, doc: w[1] as u8 });
            }
        }
        for doc in 0..2u8 {
            for inline2 in 0..2u8 {
                for first in 0..5u8 {
                    if doc + inline2 > 0 {
                        v.push(CfgCase::EnvAcross { doc, inline2, first });
                    }
                }
            }
        }
        // --- C17
        let counts = rt_counts();
        // every subset of the 8 keys with a base value each
        for mask in 0..256usize {
            let mut values = [0usize; 8];
            for (k, val) in values.iter_mut().enumerate() {
                if mask >> k & 1 == 1 {
                    *val = 1;
                }
            }
            v.push(CfgCase::RoundTrip { values, env_b: 0 });
            if mask >> 7 & 1 == 1 {
                v.push(CfgCase::RoundTrip { values, env_b: 2 });
            }
        }
        // each key's whole alphabet alone, and together with every other key at its base value
        for k in 0..8 {
            for val in 1..=counts[k] {
                let mut values = [0usize; 8];
                values[k] = val;
                v.push(CfgCase::RoundTrip { values, env_b: 0 });
                for other in 0..8 {
                    if other != k {
                        let mut v2 = values;
                        v2[other] = 1;
                        v.push(CfgCase::RoundTrip { values: v2, env_b: 0 });
                    }
                }
            }
        }
        // two environment variables: all value pairs
        for a in 1..=ENV_VALUES.len() {
            for b in 1..=ENV_VALUES.len() {
                let mut values = [0usize; 8];
                values[7] = a;
                v.push(CfgCase::RoundTrip { values, env_b: b });
            }
        }
        // wait x timeout full product
        for t in 1..=counts[5] {
            for w in 1..=counts[6] {
                let mut values = [0usize; 8];
                values[5] = t;
                values[6] = w;
                v.push(CfgCase::RoundTrip { values, env_b: 0 });
            }
        }
        for w in words(6, 5) {
            if w[0] > 3 || w[2] > 3 || w[3] > 2 || w[4] > 3 {
                continue;
            }
            v.push(CfgCase::DocRoundTrip { values: [w[0], w[1], w[2], w[3], w[4]] });
        }
        Box::new(v.into_iter())
    }
    fn bound(&self, _tier: Tier) -> String {
        "C16: every assignment of {unset,v1,v2} to the 4 layers for each of 9 keys (7 scalar keys + 2 environment variables) and jointly for every pair of keys (3^8 x 36); DocumentConfig: all 3^10 assignments of (shell,total_timeout,prepend,append,defaults.output_stream) to the layers doc and cli over the format default; parse level: inline x front-matter defaults for every key pair on Markdown and Cram base; command line: all 27 assignments of {unset,v1,v2} to (flag, inline, document defaults) for output_stream and keep_crlf on a Markdown document and all flag values on a Cram document, all 9 assignments of (flag, front-matter) for `shell` and all 16 for `total_timeout` over {unset, 1 s, 8 s, 0 s = no limit} against a 2.5 s command, through `scrut test -r json`. C17: all 256 key subsets with base values; every value of every key alphabet alone and with each other key; all pairs of 17 environment values; timeout x wait product; document configs over shell/timeout/prepend/append/defaults alphabets; routes: one-liner through the Markdown parser, a document written by the real create generator read back, serde_yaml round trip, front-matter through the parser. Same bound in quick and thorough (the space is small enough to be run completely every time).".into()
    }
    fn rule(&self, p: &str) -> String {
        if p == "C16" {
            "cases are distinct assignments by construction; non-trivial = at least two layers set the same key (a precedence decision is needed) or a list accumulates from two layers; outcome = (case family, which layer won per key)".into()
        } else {
            "cases are distinct configurations by construction; non-trivial = at least one key set; outcome = (family, per-route equal/not)".into()
        }
    }
    fn assumptions(&self, p: &str) -> Vec<String> {
        if p == "C16" {
            vec!["layer composition as written in MarkdownParser::parse and commands/test.rs: inline.with_defaults_from(doc).with_defaults_from(format).with_overrides_from(cli); the command-line layer through the real binary is explored by vc_cli".into()]
        } else {
            vec!["the one-liner is read back the way the generator places it: after the fence language of a scrut block, layered on the Markdown format default".into(), "DocumentConfig.total_timeout of exactly 900s is omitted by design and compared after layering on the format default".into()]
        }
    }

    fn check(&self, case: &CfgCase) -> CaseResult {
        let mut res = CaseResult::default();
        let key = hash64(case);
        match case {
            CfgCase::Merge { k1, k2, a1, a2 } => {
                let mk = |i: usize| if k1 == k2 { layer(&[(*k1, a1[i])]) } else { layer(&[(*k1, a1[i]), (*k2, a2[i])]) };
                let (cli, inline, doc, format) = (mk(0), mk(1), mk(2), mk(3));
                let got = match guard(|| inline.with_defaults_from(&doc).with_defaults_from(&format).with_overrides_from(&cli)) {
                    Ok(g) => g,
                    Err(p) => {
                        res.findings.push(Finding::new("C16", "no-crash", "merged config", format!("panic {p}")));
                        return res;
                    }
                };
                let first = |a: &[u8; 4]| a.iter().copied().find(|v| *v != 0).unwrap_or(0);
                let want = if k1 == k2 { layer(&[(*k1, first(a1))]) } else { layer(&[(*k1, first(a1)), (*k2, first(a2))]) };
                if got != want {
                    let mut f = Finding::new(
                        "C16",
                        "highest-precedence-layer-wins",
                        format!("{} per layer [cli,inline,doc,format] = {a1:?}, {} = {a2:?} -> {want}", KEY_NAMES[*k1], KEY_NAMES[*k2]),
                        format!("{got}"),
                    );
                    if got.environment != want.environment && no_env(&got) == no_env(&want) {
                        f = f.tag("only-environment-differs");
                    }
                    res.findings.push(f);
                }
                // associativity and identity of with_defaults_from
                let l = inline.with_defaults_from(&doc).with_defaults_from(&format);
                let r = inline.with_defaults_from(&doc.with_defaults_from(&format));
                if l != r {
                    res.findings.push(Finding::new("C16", "layering-associative", format!("{l}"), format!("{r}")));
                }
                let e = TestCaseConfig::empty();
                if inline.with_defaults_from(&e) != inline || e.with_defaults_from(&inline) != inline || inline.with_overrides_from(&e) != inline || e.with_overrides_from(&inline) != inline {
                    res.findings.push(Finding::new("C16", "empty-layer-is-identity", format!("{inline}"), "changed by an empty layer".to_string()));
                }
                let decisions = a1.iter().filter(|v| **v != 0).count().max(a2.iter().filter(|v| **v != 0).count());
                if decisions >= 2 {
                    res.nontrivial.push(("C16", key));
                }
                res.outcome.push(("C16", hash64(&("merge", a1.iter().position(|v| *v != 0), a2.iter().position(|v| *v != 0)))));
            }
            CfgCase::DocMerge { doc, cli } => {
                let mk = |a: &[u8; 5], tag: &str| {
                    let mut d = DocumentConfig::empty();
                    if a[0] > 0 {
                        d.shell = Some(PathBuf::from(format!("/bin/{tag}{}", a[0])));
                    }
                    if a[1] > 0 {
                        d.total_timeout = Some(Duration::from_secs(if a[1] == 1 { 3 } else { 7 }));
                    }
                    d.prepend = (0..a[2]).map(|i| PathBuf::from(format!("{tag}-pre{i}.md"))).collect();
                    d.append = (0..a[3]).map(|i| PathBuf::from(format!("{tag}-app{i}.md"))).collect();
                    merge_value(&mut d.defaults, 2, a[4]);
                    d
                };
                let (d, c) = (mk(doc, "doc"), mk(cli, "cli"));
                let format = DocumentConfig::default_markdown();
                let got = match guard(|| format.with_overrides_from(&d).with_overrides_from(&c)) {
                    Ok(g) => g,
                    Err(p) => {
                        res.findings.push(Finding::new("C16", "no-crash", "merged config", format!("panic {p}")));
                        return res;
                    }
                };
                let mut want = DocumentConfig::empty();
                want.shell = c.shell.clone().or(d.shell.clone());
                want.total_timeout = c.total_timeout.or(d.total_timeout).or(format.total_timeout);
                want.prepend = [c.prepend.clone(), d.prepend.clone()].concat();
                want.append = [d.append.clone(), c.append.clone()].concat();
                merge_value(&mut want.defaults, 2, if cli[4] != 0 { cli[4] } else { doc[4] });
                if got != want {
                    res.findings.push(Finding::new("C16", "document-config-layering", format!("doc={d} cli={c} -> {want}"), format!("{got}")));
                }
                let e = DocumentConfig::empty();
                if d.with_defaults_from(&e) != d || e.with_defaults_from(&d) != d {
                    res.findings.push(Finding::new("C16", "empty-layer-is-identity", format!("{d}"), "changed by an empty layer".to_string()));
                }
                let l = c.with_defaults_from(&d).with_defaults_from(&format);
                let r = c.with_defaults_from(&d.with_defaults_from(&format));
                if l != r {
                    res.findings.push(Finding::new("C16", "layering-associative", format!("{l}"), format!("{r}")));
                }
                if (0..5).any(|i| doc[i] != 0 && cli[i] != 0) {
                    res.nontrivial.push(("C16", key));
                }
                res.outcome.push(("C16", hash64(&("doc", doc.iter().map(|v| *v != 0).collect::<Vec<_>>(), cli.iter().map(|v| *v != 0).collect::<Vec<_>>()))));
            }
            CfgCase::Parse { k1, k2, inline, doc, cram_base } => {
                let ia: Vec<(usize, u8)> = if k1 == k2 { vec![(*k1, inline[0])] } else { vec![(*k1, inline[0]), (*k2, inline[1])] };
                let da: Vec<(usize, u8)> = if k1 == k2 { vec![(*k1, doc[0])] } else { vec![(*k1, doc[0]), (*k2, doc[1])] };
                let mut text = String::new();
                let dflow = yaml_flow(&da);
                if !dflow.is_empty() {
                    text.push_str(&format!("---\ndefaults: {{{dflow}}}\n---\n\n"));
                }
                text.push_str("# title\n\n");
                let iflow = yaml_flow(&ia);
                if iflow.is_empty() {
                    text.push_str("```scrut\n$ true\n```\n");
                } else {
                    text.push_str(&format!("```scrut {{{iflow}}}\n$ true\n```\n"));
                }
                let base = if *cram_base { TestCaseConfig::default_cram() } else { TestCaseConfig::default_markdown() };
                let want = layer(&ia).with_defaults_from(&TestCaseConfig::empty());
                // expected by the property, computed without with_defaults_from: per key first of inline, doc, base
                let mut expected = base.clone();
                for (k, v) in da.iter().chain(ia.iter()) {
                    merge_value(&mut expected, *k, *v); // later (inline) assignments overwrite earlier (doc) ones
                }
                let _ = want;
                match parse_md(&text, *cram_base) {
                    Ok(Ok((dc, tests))) => {
                        if tests.len() != 1 {
                            res.findings.push(Finding::new("C16", "parse-level-layering", "one test", format!("{} tests for {text:?}", tests.len())));
                        } else if tests[0].config != expected {
                            let mut f = Finding::new("C16", "parse-level-layering", format!("{text:?} -> {expected}"), format!("{}", tests[0].config));
                            if no_env(&tests[0].config) == no_env(&expected) {
                                f = f.tag("only-environment-differs");
                            }
                            res.findings.push(f);
                        }
                        if dc.defaults != layer(&da) {
                            res.findings.push(Finding::new("C16", "front-matter-defaults-read", format!("{}", layer(&da)), format!("{}", dc.defaults)));
                        }
                    }
                    Ok(Err(e)) => res.findings.push(Finding::new("C16", "parse-level-layering", format!("{text:?} parses"), format!("Err({e})"))),
                    Err(p) => res.findings.push(Finding::new("C16", "no-crash", "parse", format!("panic {p}"))),
                }
                if ia.iter().any(|(k, v)| *v != 0 && da.iter().any(|(k2, v2)| k == k2 && *v2 != 0)) {
                    res.nontrivial.push(("C16", key));
                }
                res.outcome.push(("C16", hash64(&("parse", inline.iter().map(|v| *v != 0).collect::<Vec<_>>(), doc.iter().map(|v| *v != 0).collect::<Vec<_>>(), cram_base))));
            }
            CfgCase::Cli { key: k, cli, inline: _, doc, cram: _ } if *k >= 2 => {
                use crate::cli::*;
                let sb = Sandbox::new();
                res.nontrivial.push(("C16", key));
                let shells: Vec<String> = (1..=2)
                    .map(|i| {
                        let p = sb.scratch.path().join(format!("shell{i}")).join("bash");
                        let _ = std::fs::create_dir_all(p.parent().unwrap());
                        std::fs::copy("/bin/bash", &p).unwrap_or_else(|e| machinery_failure(&format!("copy bash: {e}")));
                        p.to_string_lossy().to_string()
                    })
                    .collect();
                let mut text = String::new();
                let mut args: Vec<String> = vec!["test".into(), "--no-color".into(), "-r".into(), "json".into()];
                let (want_kind, describe): (&str, String);
                if *k == 2 {
                    if *doc > 0 {
                        text.push_str(&format!("---\nshell: \"{}\"\n---\n\n", shells[*doc as usize - 1]));
                    }
                    let effective = if *cli > 0 { shells[*cli as usize - 1].clone() } else if *doc > 0 { shells[*doc as usize - 1].clone() } else { "/usr/bin/bash".to_string() };
                    text.push_str(&format!("# Title\n\n```scrut\n$ echo \"$TESTSHELL\"\n{effective}\n```\n"));
                    if *cli > 0 {
                        args.push("--shell".into());
                        args.push(shells[*cli as usize - 1].clone());
                    }
                    want_kind = "success";
                    describe = format!("shell: command line={cli} document={doc} (0 unset) -> TESTSHELL={effective}");
                } else {
                    let secs = [0u64, 1, 8, 0]; // wide margins on both sides of the 2.5 s command: wall-clock cases must not flip under load
                    if *doc > 0 {
                        text.push_str(&format!("---\ntotal_timeout: {}s\n---\n\n", secs[*doc as usize]));
                    }
                    text.push_str("# Title\n\n```scrut\n$ sleep 2.5\n```\n");
                    if *cli > 0 {
                        args.push("--timeout-seconds".into());
                        args.push(secs[*cli as usize].to_string());
                    }
                    let effective = if *cli > 0 { secs[*cli as usize] } else if *doc > 0 { secs[*doc as usize] } else { 900 };
                    want_kind = if effective == 1 { "timeout" } else { "success" };
                    describe = format!("total_timeout: command line={cli} document={doc} (0 unset, 1 = 1 s, 2 = 8 s, 3 = 0 s i.e. no limit) on `sleep 2.5` -> effective {effective} s");
                }
                sb.write("doc.md", text.as_bytes());
                args.push("doc.md".into());
                let refs: Vec<&str> = args.iter().map(|s| s.as_str()).collect();
                let run = run_scrut(&sb, &refs, &[], std::time::Duration::from_secs(60));
                let kinds = run.json_kinds();
                res.outcome.push(("C16", hash64(&("cli-doc", *k, kinds.as_ref().ok().cloned()))));
                match kinds {
                    Ok(ks) if ks == vec![want_kind.to_string()] => {}
                    other => res.findings.push(Finding::new("C16", "command-line-layer-wins", format!("{describe}: [{want_kind}]"), format!("{other:?}; exit status {:?}; stderr {}", run.status, run.stderr_str().lines().last().unwrap_or("")))),
                }
            }
            CfgCase::Compat { key: k, inline, doc } => {
                use crate::cli::*;
                let sb = Sandbox::new();
                res.nontrivial.push(("C16", key));
                let (name, yaml) = if *k == 0 { ("output_stream", ["", "stdout", "combined"]) } else { ("keep_crlf", ["", "false", "true"]) };
                let cmd = if *k == 0 { "echo out; echo err >&2" } else { "printf 'a\\r\\n'" };
                let expectation = if *k == 0 { "out" } else { "a" };
                let mut text = String::new();
                if *doc > 0 {
                    text.push_str(&format!("---\ndefaults:\n  {name}: {}\n---\n\n", yaml[*doc as usize]));
                }
                let cfg = if *inline > 0 { format!(" {{{name}: {}}}", yaml[*inline as usize]) } else { String::new() };
                text.push_str(&format!("# Title\n\n```scrut{cfg}\n$ {cmd}\n{expectation}\n```\n"));
                sb.write("doc.md", text.as_bytes());
                let run = run_scrut(&sb, &["test", "--no-color", "-r", "json", "--cram-compat", "doc.md"], &[], std::time::Duration::from_secs(60));
                // inline, then document defaults, then the Cram format default (value 2 for both keys)
                let effective = [*inline, *doc, 2].into_iter().find(|v| *v != 0).unwrap();
                let want_kind = if effective == 1 { "success" } else { "malformed_output" };
                let kinds = run.json_kinds();
                res.outcome.push(("C16", hash64(&("compat", *k, effective, kinds.as_ref().ok().cloned()))));
                match kinds {
                    Ok(ks) if ks == vec![want_kind.to_string()] => {}
                    other => res.findings.push(Finding::new("C16", "format-default-is-the-lowest-layer", format!("{name} under --cram-compat: inline={inline} document={doc} (0 unset, 1 = {}, 2 = {}) -> effective {effective}: [{want_kind}]", yaml[1], yaml[2]), format!("{other:?}; exit status {:?}", run.status))),
                }
            }
            CfgCase::EnvAcross { doc, inline2, first } => {
                use crate::cli::*;
                let sb = Sandbox::new();
                res.nontrivial.push(("C16", key));
                let mut text = String::new();
                if *doc > 0 {
                    text.push_str("---\ndefaults:\n  environment:\n    FOO: doc\n---\n\n");
                }
                let (cfg1, cmd1) = match first {
                    1 => (" {environment: {FOO: first}}", "true"),
                    2 => ("", "export FOO=shell"),
                    3 => ("", "unset FOO"),
                    4 => ("", "declare -i FOO"),
                    _ => ("", "true"),
                };
                let want = if *inline2 > 0 { "in{state_directory}line" } else { "doc" };
                let cfg2 = if *inline2 > 0 { " {environment: {FOO: \"in{state_directory}line\"}}" } else { "" };
                text.push_str(&format!("# One\n\n```scrut{cfg1}\n$ {cmd1}\n```\n\n# Two\n\n```scrut{cfg2}\n$ echo \"FOO=${{FOO-unset}}\"\nFOO={want}\n```\n"));
                sb.write("doc.md", text.as_bytes());
                let run = run_scrut(&sb, &["test", "--no-color", "-r", "json", "doc.md"], &[], std::time::Duration::from_secs(60));
                let kinds = run.json_kinds();
                res.outcome.push(("C16", hash64(&("env-across", doc, inline2, first, kinds.as_ref().ok().cloned()))));
                match kinds {
                    Ok(k) if k == vec!["success".to_string(), "success".to_string()] => {}
                    other => res.findings.push(Finding::new(
                        "C16",
                        "environment-variable-of-the-highest-layer-in-effect",
                        format!("second test case sees FOO={want} (document defaults: {}, inline on the second test case: {}, the first test case: {}): [success, success]", if *doc > 0 { "FOO=doc" } else { "unset" }, if *inline2 > 0 { "FOO=inline" } else { "unset" }, ["does nothing", "has inline FOO=first", "runs `export FOO=shell`", "runs `unset FOO`", "runs `declare -i FOO`"][*first as usize]),
                        format!("{other:?}; exit status {:?}", run.status),
                    ).tag(if *first == 4 { "attribute-left-on-a-configured-variable" } else { "plain-variable" })),
                }
            }
            CfgCase::Cli { key: k, cli, inline, doc, cram } => {
                use crate::cli::*;
                let sb = Sandbox::new();
                let (name, yaml) = if *k == 0 { ("output_stream", ["", "stdout", "combined"]) } else { ("keep_crlf", ["", "false", "true"]) };
                let cmd = if *k == 0 { "echo out; echo err >&2" } else { "printf 'a\\r\\n'" };
                let expectation = if *k == 0 { "out" } else { "a" };
                let mut text = String::new();
                let file = if *cram {
                    text.push_str(&format!("Title\n  $ {cmd}\n  {expectation}\n"));
                    "doc.t"
                } else {
                    if *doc > 0 {
                        text.push_str(&format!("---\ndefaults:\n  {name}: {}\n---\n\n", yaml[*doc as usize]));
                    }
                    let cfg = if *inline > 0 { format!(" {{{name}: {}}}", yaml[*inline as usize]) } else { String::new() };
                    text.push_str(&format!("# Title\n\n```scrut{cfg}\n$ {cmd}\n{expectation}\n```\n"));
                    "doc.md"
                };
                sb.write(file, text.as_bytes());
                let mut args = vec!["test", "--no-color", "-r", "json"];
                match (*k, *cli) {
                    (0, 1) => args.push("--no-combine-output"),
                    (0, 2) => args.push("--combine-output"),
                    (1, 1) => args.push("--no-keep-output-crlf"),
                    (1, 2) => args.push("--keep-output-crlf"),
                    _ => {}
                }
                args.push(file);
                let run = run_scrut(&sb, &args, &[], std::time::Duration::from_secs(60));
                // effective value: command line, then inline, then document defaults, then format default
                let format_default = if *cram { 2 } else { 1 };
                let effective = [*cli, *inline, *doc, format_default].into_iter().find(|v| *v != 0).unwrap();
                // the expectation describes value 1 (stdout only / CRLF translated)
                let want_kind = if effective == 1 { "success" } else { "malformed_output" };
                if [*cli, *inline, *doc].iter().filter(|v| **v != 0).count() >= 1 {
                    res.nontrivial.push(("C16", key));
                }
                let kinds = run.json_kinds();
                res.outcome.push(("C16", hash64(&("cli", *k, effective, kinds.as_ref().ok().cloned()))));
                match kinds {
                    Ok(ks) if ks == vec![want_kind.to_string()] => {}
                    other => res.findings.push(Finding::new(
                        "C16",
                        "command-line-layer-wins",
                        format!("{name}: command line={cli} inline={inline} document={doc} on a {} document (0 unset, 1 = {}, 2 = {}) -> effective {effective}: [{want_kind}]", if *cram { "cram" } else { "markdown" }, yaml[1], yaml[2]),
                        format!("{other:?}; exit status {:?}; stderr {}", run.status, run.stderr_str().lines().last().unwrap_or("")),
                    )),
                }
                // the same run with a prepended and an appended document (one test case each, nothing configured in
                // them): the command-line layer covers their test cases as well, below it only the format default
                // (only without `defaults` in the main document: whether those reach test cases taken from other documents is
                // not stated by the property - scrut hands on the keys the other document's format default leaves unset)
                if !*cram && *doc == 0 {
                    sb.write("pre.md", format!("# Pre\n\n```scrut\n$ {cmd}\n{expectation}\n```\n").as_bytes());
                    sb.write("post.md", format!("# Post\n\n```scrut\n$ {cmd}\n{expectation}\n```\n").as_bytes());
                    let mut args2: Vec<&str> = args[..args.len() - 1].to_vec();
                    // (the document first: -P / -A take several paths)
                    args2.extend([file, "-P", "pre.md", "-A", "post.md"]);
                    let run2 = run_scrut(&sb, &args2, &[], std::time::Duration::from_secs(60));
                    let outer = if [*cli, 1].into_iter().find(|v| *v != 0).unwrap() == 1 { "success" } else { "malformed_output" };
                    let want2 = vec![outer.to_string(), want_kind.to_string(), outer.to_string()];
                    let kinds2 = run2.json_kinds();
                    res.outcome.push(("C16", hash64(&("cli-prepend-append", *k, effective, kinds2.as_ref().ok().cloned()))));
                    match kinds2 {
                        Ok(ks) if ks == want2 => {}
                        other => res.findings.push(Finding::new(
                            "C16",
                            "command-line-layer-wins",
                            format!("{name}: command line={cli} inline={inline} document={doc} on a markdown document run with -P pre.md -A post.md (0 unset, 1 = {}, 2 = {}) -> {want2:?}", yaml[1], yaml[2]),
                            format!("{other:?}; exit status {:?}; stderr {}", run2.status, run2.stderr_str().lines().last().unwrap_or("")),
                        )),
                    }
                }
            }
            CfgCase::RoundTrip { values, env_b } => {
                let cfg = rt_config(values, *env_b);
                let mut routes = vec![];
                if !cfg.is_empty() {
                    res.nontrivial.push(("C17", key));
                    // route 1: one-liner after the fence language
                    match guard(|| cfg.to_yaml_one_liner()) {
                        Ok(one) => {
                            let text = format!("```scrut {one}\n$ true\n```\n");
                            let want = cfg.with_defaults_from(&TestCaseConfig::default_markdown());
                            match parse_md(&text, false) {
                                Ok(Ok((_, tests))) if tests.len() == 1 && tests[0].config == want => routes.push(true),
                                Ok(Ok((_, tests))) => {
                                    routes.push(false);
                                    res.findings.push(Finding::new("C17", "one-liner-round-trip", format!("{one} reads back as {want}"), tests.first().map(|t| format!("{}", t.config)).unwrap_or_else(|| "no test case".into())).tag(&oneliner_tag(&cfg)));
                                }
                                Ok(Err(e)) => {
                                    routes.push(false);
                                    res.findings.push(Finding::new("C17", "one-liner-round-trip", format!("{one} parses back"), format!("Err({e})")).tag(&oneliner_tag(&cfg)));
                                }
                                Err(p) => res.findings.push(Finding::new("C17", "no-crash", "parse", format!("panic {p}"))),
                            }
                        }
                        Err(p) => res.findings.push(Finding::new("C17", "no-crash", "one-liner", format!("panic {p}"))),
                    }
                }
                // route 1b: the way `scrut create` writes it - the real generator decides which keys are written at all
                if !cfg.is_empty() {
                    use scrut::generators::generator::TestCaseGenerator;
                    let tc = scrut::testcase::TestCase { title: "T".into(), shell_expression: "true".into(), expectations: vec![], exit_code: None, line_number: 1, config: cfg.clone() };
                    let output = scrut::output::Output { stdout: vec![].into(), stderr: vec![].into(), exit_code: scrut::output::ExitStatus::Code(0) };
                    let o = scrut::outcome::Outcome { location: None, output: output.clone(), testcase: tc.clone(), format: scrut::parsers::parser::ParserType::Markdown, escaping: scrut::escaping::Escaper::Unicode, result: tc.validate(&output) };
                    match guard(|| scrut::generators::markdown::MarkdownTestCaseGenerator::default().generate_testcases(&[&o]).map_err(|e| format!("{e:#}"))) {
                        Ok(Ok(text)) => {
                            let want = cfg.with_defaults_from(&TestCaseConfig::default_markdown());
                            match parse_md(&text, false) {
                                Ok(Ok((_, tests))) if tests.len() == 1 && tests[0].config == want => routes.push(true),
                                Ok(Ok((_, tests))) => {
                                    routes.push(false);
                                    res.findings.push(Finding::new("C17", "created-document-round-trip", format!("{text:?} reads back as {want}"), tests.first().map(|t| format!("{}", t.config)).unwrap_or_else(|| "no test case".into())).tag(&oneliner_tag(&cfg)));
                                }
                                Ok(Err(e)) => {
                                    routes.push(false);
                                    res.findings.push(Finding::new("C17", "created-document-round-trip", format!("{text:?} parses back"), format!("Err({e})")).tag(&oneliner_tag(&cfg)));
                                }
                                Err(p) => res.findings.push(Finding::new("C17", "no-crash", "parse", format!("panic {p}"))),
                            }
                        }
                        Ok(Err(e)) => res.findings.push(Finding::new("C17", "created-document-round-trip", "the generator writes a document".to_string(), format!("Err({e})"))),
                        Err(p) => res.findings.push(Finding::new("C17", "no-crash", "generator", format!("panic {p}"))),
                    }
                }
                // route 2: serde_yaml
                match guard(|| serde_yaml::to_string(&cfg)) {
                    Ok(Ok(y)) => match serde_yaml::from_str::<TestCaseConfig>(&y) {
                        Ok(back) if back == cfg => routes.push(true),
                        Ok(back) => {
                            routes.push(false);
                            res.findings.push(Finding::new("C17", "yaml-round-trip", format!("{cfg}"), format!("{back} via {y:?}")));
                        }
                        Err(e) => {
                            routes.push(false);
                            res.findings.push(Finding::new("C17", "yaml-round-trip", format!("{y:?} parses back"), format!("Err({e})")));
                        }
                    },
                    Ok(Err(e)) => res.findings.push(Finding::new("C17", "yaml-round-trip", "renders", format!("Err({e})"))),
                    Err(p) => res.findings.push(Finding::new("C17", "no-crash", "to_string", format!("panic {p}"))),
                }
                // route 3: as front-matter defaults through the parser
                let dc = DocumentConfig { defaults: cfg.clone(), ..DocumentConfig::empty() };
                doc_front_matter_route(&dc, &mut res, &mut routes);
                res.outcome.push(("C17", hash64(&("tc", routes))));
            }
            CfgCase::DocRoundTrip { values } => {
                let dc = doc_rt_config(values);
                let mut routes = vec![];
                if !dc.is_empty() {
                    res.nontrivial.push(("C17", key));
                }
                match guard(|| serde_yaml::to_string(&dc)) {
                    Ok(Ok(y)) => match serde_yaml::from_str::<DocumentConfig>(&y) {
                        Ok(back) => {
                            let eq = back.with_defaults_from(&DocumentConfig::default_markdown()) == dc.with_defaults_from(&DocumentConfig::default_markdown());
                            routes.push(eq);
                            if !eq {
                                res.findings.push(Finding::new("C17", "yaml-round-trip", format!("{dc}"), format!("{back} via {y:?}")).tag(if values[1] == 3 { "total-timeout-900s-plus-fraction" } else { "other" }));
                            }
                        }
                        Err(e) => res.findings.push(Finding::new("C17", "yaml-round-trip", format!("{y:?} parses back"), format!("Err({e})"))),
                    },
                    Ok(Err(e)) => res.findings.push(Finding::new("C17", "yaml-round-trip", "renders", format!("Err({e})"))),
                    Err(p) => res.findings.push(Finding::new("C17", "no-crash", "to_string", format!("panic {p}"))),
                }
                doc_front_matter_route(&dc, &mut res, &mut routes);
                if values[1] == 3 {
                    for f in res.findings.iter_mut() {
                        if !f.tags.iter().any(|t| t == "total-timeout-900s-plus-fraction") {
                            f.tags.push("total-timeout-900s-plus-fraction".into());
                        }
                    }
                }
                res.outcome.push(("C17", hash64(&("doc", routes))));
            }
        }
        res
    }
    fn size(&self, case: &CfgCase) -> usize {
        match case {
            CfgCase::Merge { a1, a2, k1, k2 } => a1.iter().chain(a2.iter()).filter(|v| **v != 0).count() * 10 + (k1 != k2) as usize,
            CfgCase::DocMerge { doc, cli } => doc.iter().chain(cli.iter()).map(|v| *v as usize).sum(),
            CfgCase::Parse { inline, doc, .. } => inline.iter().chain(doc.iter()).filter(|v| **v != 0).count(),
            CfgCase::Cli { cli, inline, doc, .. } => 1000 + (*cli + *inline + *doc) as usize,
            CfgCase::EnvAcross { doc, inline2, first } => 1500 + (*doc + *inline2 + *first) as usize,
            CfgCase::Compat { key, inline, doc } => 1400 + (*key + *inline + *doc) as usize,
            CfgCase::RoundTrip { values, env_b } => values.iter().filter(|v| **v != 0).count() * 100 + values.iter().sum::<usize>() + env_b,
            CfgCase::DocRoundTrip { values } => values.iter().filter(|v| **v != 0).count() * 100 + values.iter().sum::<usize>(),
        }
    }
}

fn no_env(c: &TestCaseConfig) -> TestCaseConfig {
    TestCaseConfig { environment: Default::default(), ..c.clone() }
}

fn oneliner_tag(cfg: &TestCaseConfig) -> String {
    // which part of the configuration carries YAML-special characters
    let special = |s: &str| s.is_empty() || s.chars().any(|c| "\"\\:{},#'".contains(c)) || s.starts_with(' ') || s.ends_with(' ') || ["true", "null", "1"].contains(&s);
    if cfg.environment.values().any(|v| special(v)) {
        "environment-value-with-yaml-special-characters".into()
    } else if cfg.wait.as_ref().and_then(|w| w.path.as_ref()).map(|p| special(&p.to_string_lossy())).unwrap_or(false) {
        "wait-path-with-yaml-special-characters".into()
    } else {
        "plain-values".into()
    }
}

fn doc_front_matter_route(dc: &DocumentConfig, res: &mut CaseResult, routes: &mut Vec<bool>) {
    let y = match guard(|| serde_yaml::to_string(dc)) {
        Ok(Ok(y)) => y,
        _ => return,
    };
    let text = format!("---\n{y}---\n\n# t\n\n```scrut\n$ true\n```\n");
    let want = DocumentConfig::default_markdown().with_overrides_from(dc);
    match parse_md(&text, false) {
        Ok(Ok((back, tests))) => {
            let want_tc = dc.defaults.with_defaults_from(&TestCaseConfig::default_markdown());
            let ok = back == want && tests.len() == 1 && tests[0].config == want_tc;
            routes.push(ok);
            if !ok {
                res.findings.push(Finding::new("C17", "front-matter-round-trip", format!("{want} / test config {want_tc}"), format!("{back} / {} via {text:?}", tests.first().map(|t| t.config.to_string()).unwrap_or_default())));
            }
        }
        Ok(Err(e)) => {
            routes.push(false);
            res.findings.push(Finding::new("C17", "front-matter-round-trip", format!("{text:?} parses back"), format!("Err({e})")));
        }
        Err(p) => res.findings.push(Finding::new("C17", "no-crash", "parse", format!("panic {p}"))),
    }
}

#[allow(dead_code)]
fn _unused(_: BTreeMap<String, String>) {}
