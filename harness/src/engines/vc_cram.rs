//! C07: Cram documents -- indented `$` blocks become the written tests, in order.

use std::sync::Arc;

use scrut::config::TestCaseConfig;
use scrut::expectation::ExpectationMaker;
use scrut::parsers::cram::CramParser;
use scrut::parsers::parser::Parser;
use scrut::rules::glob_cram::CramGlobRule;
use scrut::rules::registry::RuleRegistry;
use scrut::rules::rule::RuleMaker;
use serde::{Deserialize, Serialize};

use crate::core::*;
use crate::refmodel::cramtok::*;

pub struct VcCram;

pub const KINDS: [&str; 24] = [
    // non-ASCII text in every line role (title, one-space line, expectation, command)
    "\u{65e5}\u{672c}\u{8a9e} title",
    " \u{e9}",
    "  \u{e9} out",
    "  $ \u{e9}cho",
    "Title",
    "Other title",
    "# comment",
    "",
    "  $ cmd",
    "  $ two",
    "  > cont",
    "  out",
    "  ",
    "   x",
    "  out  ",
    "  [2]",
    "  [7]",
    " x",
    "  # not a comment",
    "  foo* (glob)",
    "  a\tb (esc)",
    // looks like an exit code line but for the blank at its end: an expectation whose white space is kept
    "  [4] ",
    // command head and continuation that end in blanks (significant inside an open quote or here-document): kept verbatim
    "  $ echo \"a  ",
    "  > b \" ",
];
/// core alphabet for the deeper run
pub const CORE: [usize; 9] = [4, 6, 7, 8, 10, 11, 15, 12, 0];

#[derive(Clone, Debug, Serialize, Deserialize, Hash)]
pub struct CramCase {
    pub kinds: Vec<usize>,
    pub crlf: bool,
    pub final_newline: bool,
}

impl CramCase {
    pub fn text(&self) -> String {
        let nl = if self.crlf { "\r\n" } else { "\n" };
        let mut t = self.kinds.iter().map(|k| KINDS[*k]).collect::<Vec<_>>().join(nl);
        if self.final_newline && !self.kinds.is_empty() {
            t.push_str(nl);
        }
        t
    }
}

thread_local! {
    static CRAM: CramParser = {
        let mut r = RuleRegistry::default();
        r.register(CramGlobRule::make, &["glob", "gl"]);
        CramParser::new(Arc::new(ExpectationMaker::new(r)), 2)
    };
}

impl Engine for VcCram {
    type Case = CramCase;
    fn name(&self) -> &'static str {
        "vc_cram"
    }
    fn properties(&self) -> Vec<&'static str> {
        vec!["C07"]
    }
    fn hang_is_violation(&self) -> Vec<&'static str> {
        vec!["C07"]
    }
    fn chunk(&self) -> usize {
        128
    }
    fn cases(&self, tier: Tier) -> Box<dyn Iterator<Item = CramCase> + Send + '_> {
        let (d, core_d) = match tier {
            Tier::Quick => (4, 5),
            Tier::Thorough => (5, 7),
        };
        let full = words_upto(KINDS.len(), d).flat_map(move |kinds| {
            let variants: Vec<(bool, bool)> = if kinds.len() == d { vec![(false, true)] } else { vec![(false, true), (true, true), (false, false)] };
            variants.into_iter().map(move |(crlf, final_newline)| CramCase { kinds: kinds.clone(), crlf, final_newline })
        });
        let core = (d + 1..=core_d).flat_map(|l| words(CORE.len(), l)).map(|w| CramCase { kinds: w.iter().map(|i| CORE[*i]).collect(), crlf: false, final_newline: true });
        Box::new(full.chain(core))
    }
    fn bound(&self, tier: Tier) -> String {
        let (d, core_d) = match tier {
            Tier::Quick => (4, 5),
            Tier::Thorough => (5, 7),
        };
        format!("all line sequences of length <= {d} over {} line kinds (LF; CRLF and missing final newline below the maximum length), plus all sequences of length {}..={core_d} over the 9-kind core alphabet", KINDS.len(), d + 1)
    }
    fn rule(&self, _p: &str) -> String {
        "documents are distinct words by construction; non-trivial = the document contains at least one indented `$` line; outcome = (Ok/Err/panic, number of tests, number of orphan body lines)".into()
    }
    fn assumptions(&self, _p: &str) -> Vec<String> {
        vec![
            "body lines that are not preceded by a command (orphans) belong to no test: the document is rejected or they are dropped, they never become the expectations or the exit code of a later command".into(),
            "a title is accepted as \"\" for the second and later tests under the same title line (pinned by the repository's unit tests)".into(),
            "Err is always acceptable".into(),
        ]
    }
    fn check(&self, case: &CramCase) -> CaseResult {
        let mut res = CaseResult::default();
        let text = case.text();
        let reference = tokenize(&text);
        if text.lines().any(|l| l.starts_with("  $ ")) {
            res.nontrivial.push(("C07", hash64(&text)));
        }
        let push = |res: &mut CaseResult, clause: &str, exp: String, obs: String| {
            if res.findings.is_empty() {
                res.findings.push(Finding::new("C07", clause, exp, format!("{obs}; document = {text:?}")));
            }
        };
        let tests = match guard(|| CRAM.with(|p| p.parse(&text)).map_err(|e| format!("{e:#}"))) {
            Err(p) => {
                push(&mut res, "no-crash", "Ok or Err".into(), format!("panic: {p}"));
                return res;
            }
            Ok(Err(_)) => {
                res.counters.push(("rejected", 1));
                if reference.orphans == 0 && reference.unspecified.is_none() {
                    res.counters.push(("rejected_although_well_formed", 1));
                }
                res.outcome.push(("C07", hash64(&"err")));
                return res;
            }
            Ok(Ok((_, t))) => t,
        };
        res.outcome.push(("C07", hash64(&("ok", tests.len(), reference.orphans.min(3)))));
        if reference.unspecified.is_some() {
            return res;
        }
        if tests.len() != reference.tests.len() {
            push(&mut res, "one-test-per-command", format!("{} tests {:?}", reference.tests.len(), reference.tests.iter().map(|t| &t.shell_expression).collect::<Vec<_>>()), format!("{} tests {:?}", tests.len(), tests.iter().map(|t| &t.shell_expression).collect::<Vec<_>>()));
            return res;
        }
        for (i, (g, w)) in tests.iter().zip(reference.tests.iter()).enumerate() {
            if g.config != TestCaseConfig::default_cram() {
                push(&mut res, "cram-defaults", format!("test {i}: {}", TestCaseConfig::default_cram()), format!("{}", g.config));
                break;
            }
            if g.line_number != w.line_number {
                push(&mut res, "line-number", format!("test {i}: {}", w.line_number), format!("{}", g.line_number));
                break;
            }
            if w.tainted {
                // body lines without a command directly precede this test: they are nobody's expectations or exit code
                // (rejecting the document is fine, attaching them to this command is not)
                res.counters.push(("tests_after_orphan_lines_compared", 1));
            }
            if g.shell_expression != w.shell_expression {
                push(&mut res, "shell-expression", format!("test {i}: {:?}", w.shell_expression), format!("{:?}", g.shell_expression));
                break;
            }
            let exps: Vec<String> = g.expectations.iter().map(|e| e.original_string()).collect();
            if exps != w.expectations {
                push(&mut res, "expectation-lines", format!("test {i}: {:?}", w.expectations), format!("{exps:?}"));
                break;
            }
            if g.exit_code != w.exit_code {
                push(&mut res, "exit-code", format!("test {i}: {:?}", w.exit_code), format!("{:?}", g.exit_code));
                break;
            }
            if !w.titles.contains(&g.title) {
                push(&mut res, "title", format!("test {i}: one of {:?}", w.titles), format!("{:?}", g.title));
                break;
            }
        }
        res
    }
    fn size(&self, case: &CramCase) -> usize {
        case.kinds.len() * 100 + case.crlf as usize + (!case.final_newline) as usize
    }
}
