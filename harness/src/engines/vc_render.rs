//! C19: every renderer handles every outcome and shows every difference.

use scrut::diff::DiffLine;
use scrut::escaping::Escaper;
use scrut::expectation::ExpectationMaker;
use scrut::outcome::Outcome;
use scrut::output::{ExitStatus, Output};
use scrut::parsers::parser::ParserType;
use scrut::renderers::diff::DiffRenderer;
use scrut::renderers::pretty::{PrettyColorRenderer, PrettyMonochromeRenderer};
use scrut::renderers::renderer::Renderer;
use scrut::renderers::structured::{JsonRenderer, YamlRenderer};
use scrut::rules::registry::RuleRegistry;
use scrut::testcase::{TestCase, TestCaseError};
use serde::{Deserialize, Serialize};

use crate::core::*;

pub struct VcRender;

/// text alphabet: (line content bytes, expectation line describing it)
pub fn texts() -> Vec<(Vec<u8>, String)> {
    let long = "L".repeat(10_000);
    vec![
        (b"x".to_vec(), "x".into()),
        ("\u{e9}".as_bytes().to_vec(), "\u{e9}".into()),
        ("\u{65e5}\u{672c}".as_bytes().to_vec(), "\u{65e5}\u{672c}".into()),
        (b"x ".to_vec(), "x ".into()),
        (b"x\t".to_vec(), "x\\t (escaped)".into()),
        ("x\u{a0}".as_bytes().to_vec(), "x\u{a0}".into()),
        ("x\u{3000}".as_bytes().to_vec(), "x\u{3000}".into()),
        (b"\0".to_vec(), "\\x00 (escaped)".into()),
        (b"\x1b[1m".to_vec(), "\\x1b[1m (escaped)".into()),
        (b"\xff".to_vec(), "\\xff (escaped)".into()),
        (long.as_bytes().to_vec(), long.clone()),
        (b"".to_vec(), "".into()),
        (b"a* (glob+)".to_vec(), "a* (glob+)".into()),
        // an optional expectation that matches nothing in the alphabet: skipped silently by the diff (numbering must still fit)
        (b"o".to_vec(), "zzz (?)".into()),
    ]
}

#[derive(Clone, Debug, Serialize, Deserialize, Hash, PartialEq)]
pub enum Atom {
    Ok,
    /// expectations (text indices) and output lines (text indices); built by the real validate
    Malformed { exps: Vec<usize>, lines: Vec<usize>, final_newline: bool },
    InvalidExit { actual: i32, expected: Option<i32>, line: usize },
    /// a long expectation list: `len` expectations, all optional and unmatched except a required unmatched one at `required_at`; `lines` output lines `x`
    LongList { len: usize, required_at: usize, lines: usize },
    /// a hand-built diff ("any diff shape", also shapes the diff tool of today never produces): one item per code,
    /// 0 matched expectation (1 line), 1 unmatched expectation, 2 one unexpected line, 3 two unexpected lines, 4 expectation matched by two lines
    Shape { items: Vec<u8> },
    Internal,
    Timeout,
    Skipped,
}

#[derive(Clone, Debug, Serialize, Deserialize, Hash)]
pub struct RenderCase {
    pub atoms: Vec<Atom>,
    pub location: bool,
    pub cram: bool,
    pub ascii: bool,
    pub line_number: usize,
    /// renderer: 0 pretty color, 1 pretty mono, 2 diff, 3 json, 4 json pretty, 5 yaml
    pub renderer: u8,
    pub absolute: bool,
    pub surrounding: usize,
    /// text that the renderers show unescaped (shell expression, title) holds: 0 nothing special, 1 an unterminated OSC
    /// sequence (ESC ]), 2 an unterminated CSI sequence (ESC [), 3 a DCS introducer (ESC P), 4 NUL and BEL
    #[serde(default)]
    pub awkward: u8,
    /// all outcomes of the list carry the same line number (test cases of a prepended document are reported under the
    /// location of the main document with the line numbers of their own file: two results can share location and line)
    #[serde(default)]
    pub same_line: bool,
}

static COLOUR_SWITCH: std::sync::RwLock<()> = std::sync::RwLock::new(());

pub const AWKWARD: [&str; 5] = ["", "\u{1b}]0;title", "\u{1b}[38;5", "\u{1b}Pq", "\0\u{7}"];

thread_local! {
    static MAKER: ExpectationMaker = ExpectationMaker::new(RuleRegistry::default());
    static STRIP: regex::Regex = regex::Regex::new(r"\x1b\[[0-9;]*m").unwrap();
    static PRETTY_LINE: regex::Regex = regex::Regex::new(r"^[ +0-9]*\| ([-+ ]) (.*)$").unwrap();
}

fn build_outcome(i: usize, atom: &Atom, case: &RenderCase) -> Option<(Outcome, &'static str)> {
    let t = texts();
    let mut tc = TestCase {
        title: format!("Title{i}{}", AWKWARD[case.awkward as usize]),
        shell_expression: format!("cmd{i}{}", if case.awkward == 0 { String::new() } else { format!("; echo \"{}\"", AWKWARD[case.awkward as usize]) }),
        expectations: vec![],
        exit_code: None,
        line_number: if case.same_line { case.line_number } else { case.line_number + i * 10 },
        config: Default::default(),
    };
    let mut output = Output { stdout: b"x\n".to_vec().into(), stderr: b"err\n".to_vec().into(), exit_code: ExitStatus::Code(0) };
    let (result, kind): (Result<(), TestCaseError>, &'static str) = match atom {
        Atom::Ok => {
            tc.expectations = vec![MAKER.with(|m| m.parse("x")).ok()?];
            (tc.validate(&output), "success")
        }
        Atom::Malformed { exps, lines, final_newline } => {
            for e in exps {
                tc.expectations.push(MAKER.with(|m| m.parse(&t[*e].1)).ok()?);
            }
            let mut bytes = vec![];
            for (k, l) in lines.iter().enumerate() {
                bytes.extend_from_slice(&t[*l].0);
                if k + 1 < lines.len() || *final_newline {
                    bytes.push(b'\n');
                }
            }
            output.stdout = bytes.into();
            let r = tc.validate(&output);
            if !matches!(r, Err(TestCaseError::MalformedOutput(_))) {
                return None; // this pair passes: not a malformed-output atom
            }
            (r, "malformed_output")
        }
        Atom::LongList { len, required_at, lines } => {
            for k in 0..*len {
                let text = if k == *required_at { "missing".to_string() } else { format!("o{k} (?)") };
                tc.expectations.push(MAKER.with(|m| m.parse(&text)).ok()?);
            }
            output.stdout = "x\n".repeat(*lines).into_bytes().into();
            let r = tc.validate(&output);
            if !matches!(r, Err(TestCaseError::MalformedOutput(_))) {
                return None;
            }
            (r, "malformed_output")
        }
        Atom::Shape { items } => {
            if items.iter().all(|c| *c == 0 || *c == 4) {
                return None; // no difference: not a failed outcome
            }
            let mut lines: Vec<DiffLine> = vec![];
            let mut out: Vec<u8> = vec![];
            let (mut e, mut o) = (0usize, 0usize);
            let mut take = |n: usize, o: &mut usize, out: &mut Vec<u8>| -> Vec<(usize, Vec<u8>)> {
                (0..n)
                    .map(|_| {
                        let l = format!("out{}\n", *o).into_bytes();
                        out.extend_from_slice(&l);
                        *o += 1;
                        (*o - 1, l)
                    })
                    .collect()
            };
            for c in items {
                match c {
                    0 | 4 => {
                        let n = if *c == 0 { 1 } else { 2 };
                        let text = if *c == 0 { format!("out{o}") } else { "out* (glob+)".to_string() };
                        let expectation = MAKER.with(|m| m.parse(&text)).ok()?;
                        tc.expectations.push(expectation.clone());
                        lines.push(DiffLine::MatchedExpectation { index: e, expectation, lines: take(n, &mut o, &mut out) });
                        e += 1;
                    }
                    1 => {
                        let expectation = MAKER.with(|m| m.parse(&format!("exp{e}"))).ok()?;
                        tc.expectations.push(expectation.clone());
                        lines.push(DiffLine::UnmatchedExpectation { index: e, expectation });
                        e += 1;
                    }
                    _ => lines.push(DiffLine::UnexpectedLines { lines: take(*c as usize - 1, &mut o, &mut out) }),
                }
            }
            output.stdout = out.into();
            (Err(TestCaseError::MalformedOutput(scrut::diff::Diff::new(lines))), "malformed_output")
        }
        Atom::InvalidExit { actual, expected, line } => {
            tc.exit_code = *expected;
            tc.expectations = vec![MAKER.with(|m| m.parse("x")).ok()?];
            let mut bytes = t[*line].0.clone();
            bytes.push(b'\n');
            output.stdout = bytes.into();
            output.exit_code = ExitStatus::Code(*actual);
            let r = tc.validate(&output);
            if !matches!(r, Err(TestCaseError::InvalidExitCode { .. })) {
                return None;
            }
            (r, "invalid_exit_code")
        }
        Atom::Internal => (Err(TestCaseError::InternalError(anyhow::anyhow!("some internal\nerror \u{3000}"))), "internal_error"),
        Atom::Timeout => {
            output.exit_code = ExitStatus::Timeout(std::time::Duration::from_secs(1));
            (Err(TestCaseError::Timeout), "timeout")
        }
        Atom::Skipped => (Err(TestCaseError::Skipped), "skipped"),
    };
    Some((
        Outcome {
            location: if case.location { Some("dir/file.md".to_string()) } else { None },
            output,
            testcase: tc,
            format: if case.cram { ParserType::Cram } else { ParserType::Markdown },
            escaping: if case.ascii { Escaper::Ascii } else { Escaper::Unicode },
            result,
        },
        kind,
    ))
}

fn strip(s: &str) -> String {
    STRIP.with(|r| r.replace_all(s, "").to_string())
}

impl Engine for VcRender {
    type Case = RenderCase;
    fn name(&self) -> &'static str {
        "vc_render"
    }
    fn properties(&self) -> Vec<&'static str> {
        vec!["C19"]
    }
    fn hang_is_violation(&self) -> Vec<&'static str> {
        vec!["C19"]
    }
    fn chunk(&self) -> usize {
        64
    }
    fn cases(&self, tier: Tier) -> Box<dyn Iterator<Item = RenderCase> + Send + '_> {
        // colours on for the whole process: the styled code path is the one users see on a terminal
        console_colors(true);
        let nt = texts().len();
        let (max_e, max_l, list_len) = match tier {
            Tier::Quick => (1, 2, 2),
            Tier::Thorough => (2, 2, 3),
        };
        // renderer parameter combinations
        let mut params: Vec<(u8, bool, usize)> = vec![];
        for r in 0..2u8 {
            for absolute in [false, true] {
                for s in [0usize, 1, 5] {
                    params.push((r, absolute, s));
                }
            }
        }
        for r in 2..6u8 {
            params.push((r, false, 5));
        }
        let params2 = params.clone();
        // (a) single outcome over the whole malformed / invalid-exit atom space
        let singles = words_upto(nt, max_e).flat_map(move |exps| {
            let params = params.clone();
            words_upto(nt, max_l).flat_map(move |lines| {
                let exps = exps.clone();
                let params = params.clone();
                (if lines.is_empty() { vec![true] } else { vec![true, false] }).into_iter().flat_map({
                    let lines = lines.clone();
                    let exps = exps.clone();
                    let params = params.clone();
                    move |final_newline| {
                        let atom = Atom::Malformed { exps: exps.clone(), lines: lines.clone(), final_newline };
                        let params = params.clone();
                        [false, true].into_iter().flat_map(move |ascii| {
                            let atom = atom.clone();
                            let params = params.clone();
                            [1usize, 98, 9999].into_iter().flat_map(move |line_number| {
                                let atom = atom.clone();
                                params.clone().into_iter().map(move |(renderer, absolute, surrounding)| RenderCase {
                                    atoms: vec![atom.clone()],
                                    location: renderer % 2 == 0,
                                    cram: line_number == 98,
                                    ascii,
                                    line_number,
                                    renderer,
                                    absolute,
                                    surrounding,
                                    awkward: 0,
                                    same_line: false,
                                })
                            })
                        })
                    }
                })
            })
        });
        // (b) lists over one representative per result kind
        let reps = vec![
            Atom::Ok,
            Atom::Malformed { exps: vec![0, 3], lines: vec![1, 0, 6], final_newline: true },
            Atom::InvalidExit { actual: 3, expected: None, line: 0 },
            Atom::InvalidExit { actual: 0, expected: Some(2), line: 9 },
            Atom::Internal,
            Atom::Timeout,
            Atom::Skipped,
        ];
        let lists = words_upto(reps.len(), list_len).flat_map(move |w| {
            let atoms: Vec<Atom> = w.iter().map(|i| reps[*i].clone()).collect();
            let params = params2.clone();
            [false, true].into_iter().flat_map(move |location| {
                let atoms = atoms.clone();
                let params = params.clone();
                [false, true].into_iter().flat_map(move |ascii| {
                    let atoms = atoms.clone();
                    let atoms2 = atoms.clone();
                    params.clone().into_iter().flat_map(move |(renderer, absolute, surrounding)| {
                        let base = RenderCase { atoms: atoms2.clone(), location, cram: ascii, ascii, line_number: 7, renderer, absolute, surrounding, awkward: 0, same_line: false };
                        let mut v = vec![base.clone()];
                        if location && atoms2.len() >= 2 && surrounding == 5 && !absolute {
                            v.push(RenderCase { same_line: true, ..base });
                        }
                        v
                    })
                })
            })
        });
        // (c) long expectation lists with silently skipped optional expectations: the numbering crosses a power of ten
        let params3: Vec<(u8, bool, usize)> = vec![(0, false, 5), (1, false, 0), (1, true, 5), (2, false, 5), (3, false, 5), (5, false, 5)];
        let long = [9usize, 10, 11, 12].into_iter().flat_map(move |len| {
            let params3 = params3.clone();
            (0..len).flat_map(move |required_at| {
                let params3 = params3.clone();
                [0usize, 1, 3].into_iter().flat_map(move |lines| {
                    let params3 = params3.clone();
                    [1usize, 89, 98].into_iter().flat_map(move |line_number| {
                        params3.clone().into_iter().map(move |(renderer, absolute, surrounding)| RenderCase { atoms: vec![Atom::LongList { len, required_at, lines }], location: true, cram: false, ascii: false, line_number, renderer, absolute, surrounding, awkward: 0, same_line: false })
                    })
                })
            })
        });
        // (d) hand-built diff shapes
        let shape_len = match tier {
            Tier::Quick => 4,
            Tier::Thorough => 5,
        };
        let params4: Vec<(u8, bool, usize)> = vec![(0, false, 5), (1, false, 0), (1, true, 1), (2, false, 5), (3, false, 5), (5, false, 5)];
        let shapes = words_upto(5, shape_len).flat_map(move |w| {
            let items: Vec<u8> = w.iter().map(|i| *i as u8).collect();
            let params4 = params4.clone();
            [false, true].into_iter().flat_map(move |cram| {
                let items = items.clone();
                params4.clone().into_iter().map(move |(renderer, absolute, surrounding)| RenderCase { atoms: vec![Atom::Shape { items: items.clone() }], location: true, cram, ascii: false, line_number: 3, renderer, absolute, surrounding, awkward: 0, same_line: false })
            })
        });
        // (e) text that is shown unescaped (shell expression, title) holding escape sequence introducers
        let reps2 = vec![
            Atom::Ok,
            Atom::Malformed { exps: vec![0, 3], lines: vec![1, 0, 6], final_newline: true },
            Atom::InvalidExit { actual: 3, expected: None, line: 0 },
            Atom::Internal,
            Atom::Timeout,
            Atom::Skipped,
        ];
        let awkward = (1..AWKWARD.len() as u8).flat_map(move |awk| {
            let reps2 = reps2.clone();
            words(reps2.len(), 2).into_iter().flat_map(move |w| {
                let atoms: Vec<Atom> = w.iter().map(|i| reps2[*i].clone()).collect();
                (0..6u8).map(move |renderer| RenderCase { atoms: atoms.clone(), location: true, cram: false, ascii: false, line_number: 7, renderer, absolute: false, surrounding: 5, awkward: awk, same_line: false })
            })
        });
        Box::new(lists.chain(long).chain(shapes).chain(awkward).chain(singles))
    }
    fn bound(&self, tier: Tier) -> String {
        let (max_e, max_l, list_len) = match tier {
            Tier::Quick => (1, 2, 2),
            Tier::Thorough => (2, 2, 3),
        };
        let shape_len = if matches!(tier, Tier::Quick) { 4 } else { 5 };
        format!(
            "(a) single failed outcomes whose diff is produced by the real validate for every expectation list <= {max_e} x output <= {max_l} lines over {} texts (multi-byte, wide, trailing Unicode whitespace, NUL, ESC, 0xFF, 10000-char line, empty, glob) with/without final newline x both escapers x line numbers {{1,98,9999}} x 16 renderer settings (pretty colour/mono x relative/absolute x 0/1/5 surrounding lines; diff; json; json pretty; yaml); (c) expectation lists of 9..12 entries of which all but one are optional and skipped (line numbering crosses 10 / 100), x 0/1/3 output lines x line numbers {{1,89,98}}; (d) every hand-built diff of <= {shape_len} items over {{matched, unmatched expectation, 1 unexpected line, 2 unexpected lines, expectation matched by 2 lines}} (also shapes that the diff tool of today does not produce, e.g. adjacent runs of unexpected lines) x Markdown/Cram x 6 renderer settings; (e) all outcome pairs over 6 representatives whose shell expression and title (shown unescaped) hold an unterminated OSC / CSI / DCS introducer or NUL+BEL x 6 renderers; (b) all outcome lists of length <= {list_len} (lists with location also with one line number shared by all outcomes) over 7 representatives of the result kinds x location present/absent x escaper x the same renderer settings",
            texts().len()
        )
    }
    fn rule(&self, _p: &str) -> String {
        "cases are distinct tuples by construction (pairs that validate Ok are dropped from family (a)); non-trivial = at least one outcome in the list failed; outcome = (renderer, sequence of result kinds, number of + and - lines)".into()
    }
    fn assumptions(&self, _p: &str) -> Vec<String> {
        vec![
            "lists mixing outcomes with and without location are not enumerated (the diff renderer documents that it refuses them; `scrut test` never produces them)".into(),
            "the text searched for an unexpected line is the escaper's own printable rendering of it (the escaper is C11's business), compared modulo trailing white space, which the pretty renderer replaces by marker glyphs".into(),
        ]
    }

    fn check(&self, case: &RenderCase) -> CaseResult {
        let mut res = CaseResult::default();
        let mut outcomes = vec![];
        let mut kinds = vec![];
        for (i, a) in case.atoms.iter().enumerate() {
            match build_outcome(i, a, case) {
                Some((o, k)) => {
                    outcomes.push(o);
                    kinds.push(k);
                }
                None => return res, // not a valid atom (pair passes)
            }
        }
        let refs: Vec<&Outcome> = outcomes.iter().collect();
        // the monochrome renderer is what runs when colours are off (`--no-color`, output that is no terminal): family (e)
        // renders it that way; the switch is global to the process, so those cases exclude all other rendering meanwhile
        let _colour_guard: Result<std::sync::RwLockReadGuard<()>, std::sync::RwLockWriteGuard<()>> = if case.awkward != 0 && case.renderer == 1 {
            let g = COLOUR_SWITCH.write().unwrap_or_else(|e| e.into_inner());
            console_colors(false);
            Err(g)
        } else {
            Ok(COLOUR_SWITCH.read().unwrap_or_else(|e| e.into_inner()))
        };
        let rendered = guard(|| match case.renderer {
            0 => PrettyColorRenderer { max_surrounding_lines: case.surrounding, absolute_line_numbers: case.absolute, summarize: true }.render(&refs),
            1 => PrettyMonochromeRenderer::new(PrettyColorRenderer { max_surrounding_lines: case.surrounding, absolute_line_numbers: case.absolute, summarize: true }).render(&refs),
            2 => DiffRenderer::new().render(&refs),
            3 => JsonRenderer::new(false).render(&refs),
            4 => JsonRenderer::new(true).render(&refs),
            _ => YamlRenderer::new().render(&refs),
        });
        if _colour_guard.is_err() {
            console_colors(true);
        }
        drop(_colour_guard);
        let rname = ["pretty", "pretty-mono", "diff", "json", "json-pretty", "yaml"][case.renderer as usize];
        let fail = |res: &mut CaseResult, clause: &str, exp: String, obs: String| {
            if res.findings.len() < 2 {
                res.findings.push(Finding::new("C19", clause, exp, obs).tag(rname));
            }
        };
        if kinds.iter().any(|k| *k != "success") {
            res.nontrivial.push(("C19", hash64(case)));
        }
        let text = match rendered {
            Err(p) => {
                fail(&mut res, "no-crash", format!("{rname} renders"), format!("panic: {p}"));
                return res;
            }
            Ok(Err(e)) => {
                fail(&mut res, "returns-a-rendering", format!("{rname} renders"), format!("Err({e:#})"));
                return res;
            }
            Ok(Ok(t)) => t,
        };
        let mut plus_minus = (0usize, 0usize);
        match case.renderer {
            0 | 1 => {
                let plain = strip(&text);
                if case.renderer == 1 && plain != text {
                    fail(&mut res, "monochrome-has-no-escape-sequences", "no ANSI sequences".into(), "ANSI sequences present".into());
                }
                let lines: Vec<&str> = plain.lines().collect();
                // sections by command header
                for (i, (o, k)) in outcomes.iter().zip(kinds.iter()).enumerate() {
                    let header = format!("// $ cmd{i}");
                    let start = lines.iter().position(|l| *l == header || (case.awkward != 0 && l.starts_with(&header)));
                    let failed = !matches!(*k, "success" | "skipped");
                    if !failed {
                        if start.is_some() {
                            fail(&mut res, "no-failure-section-for-passed-test", format!("no section for outcome {i} ({k})"), format!("section present in {plain:?}"));
                        }
                        continue;
                    }
                    let Some(start) = start else {
                        fail(&mut res, "failure-section-present", format!("section `{header}` for outcome {i} ({k})"), trunc(&plain));
                        continue;
                    };
                    let end = lines.iter().enumerate().skip(start + 1).find(|(_, l)| l.starts_with("// $ cmd") || l.starts_with("Result: ")).map(|(j, _)| j).unwrap_or(lines.len());
                    let section = &lines[start..end];
                    if let Err(TestCaseError::MalformedOutput(diff)) = &o.result {
                        let mut plus: Vec<String> = vec![];
                        let mut minus: Vec<String> = vec![];
                        for l in section {
                            PRETTY_LINE.with(|r| {
                                if let Some(c) = r.captures(l) {
                                    match &c[1] {
                                        "+" => plus.push(c[2].to_string()),
                                        "-" => minus.push(c[2].to_string()),
                                        _ => {}
                                    }
                                }
                            });
                        }
                        let mut want_plus = vec![];
                        let mut want_minus = vec![];
                        for d in &diff.lines {
                            match d {
                                DiffLine::UnexpectedLines { lines } => {
                                    for (_, l) in lines {
                                        let content = if l.last() == Some(&b'\n') { &l[..l.len() - 1] } else { &l[..] };
                                        want_plus.push(o.escaping.escaped_printable(content).trim_end().to_string());
                                    }
                                }
                                DiffLine::UnmatchedExpectation { expectation, .. } => want_minus.push(expectation.to_expression_string(&o.escaping).trim_end().to_string()),
                                _ => {}
                            }
                        }
                        plus_minus = (plus.len(), minus.len());
                        if plus.len() != want_plus.len() || minus.len() != want_minus.len() {
                            fail(&mut res, "every-difference-shown", format!("{} unexpected (+) and {} unmatched (-) lines", want_plus.len(), want_minus.len()), format!("{} + and {} - lines in {:?}", plus.len(), minus.len(), trunc(&section.join("\n"))));
                        } else {
                            for (g, w) in plus.iter().zip(want_plus.iter()) {
                                if !g.contains(w.as_str()) {
                                    fail(&mut res, "unexpected-line-shown", format!("a + line containing {:?}", trunc(w)), format!("{:?}", trunc(g)));
                                }
                            }
                            for (g, w) in minus.iter().zip(want_minus.iter()) {
                                if !g.contains(w.as_str()) {
                                    fail(&mut res, "unmatched-expectation-shown", format!("a - line containing {:?}", trunc(w)), format!("{:?}", trunc(g)));
                                }
                            }
                        }
                    }
                }
                // summary
                let ok = kinds.iter().filter(|k| **k == "success").count();
                let skipped = kinds.iter().filter(|k| **k == "skipped").count();
                let failed = kinds.len() - ok - skipped;
                let want = format!("{} testcase(s): {ok} succeeded, {failed} failed and {skipped} skipped", kinds.len());
                if !lines.iter().any(|l| l.starts_with("Result: ") && l.ends_with(&want)) {
                    fail(&mut res, "summary-adds-up", want, format!("{:?}", lines.iter().rev().find(|l| l.starts_with("Result")).unwrap_or(&"<no summary>")));
                }
            }
            2 => {
                let lines: Vec<&str> = text.lines().collect();
                for (i, (o, k)) in outcomes.iter().zip(kinds.iter()).enumerate() {
                    let title = format!(": Title{i}");
                    let hunks: Vec<usize> = lines.iter().enumerate().filter(|(_, l)| l.starts_with("@@ ") && (l.ends_with(&title) || (case.awkward != 0 && l.contains(&title)))).map(|(j, _)| j).collect();
                    let prefix = if case.cram { "  " } else { "" };
                    match &o.result {
                        Ok(()) => {
                            if !hunks.is_empty() {
                                fail(&mut res, "no-failure-section-for-passed-test", format!("no hunk for outcome {i} ({k})"), format!("{text:?}"));
                            }
                        }
                        Err(TestCaseError::MalformedOutput(diff)) => {
                            // body lines of this outcome's hunks
                            let mut body: Vec<&str> = vec![];
                            for h in &hunks {
                                for l in lines.iter().skip(h + 1) {
                                    if l.starts_with("@@ ") || l.starts_with("--- ") || l.starts_with("+++ ") || l.starts_with("# ---- ") {
                                        break;
                                    }
                                    body.push(l);
                                }
                            }
                            let mut want_plus = vec![];
                            let mut want_minus = vec![];
                            for d in &diff.lines {
                                match d {
                                    DiffLine::UnexpectedLines { lines } => {
                                        for (_, l) in lines {
                                            let content = if l.last() == Some(&b'\n') { &l[..l.len() - 1] } else { &l[..] };
                                            want_plus.push((String::from_utf8_lossy(content).to_string(), o.escaping.escaped_printable(content)));
                                        }
                                    }
                                    DiffLine::UnmatchedExpectation { expectation, .. } => want_minus.push(expectation.original_string()),
                                    _ => {}
                                }
                            }
                            let plus: Vec<&&str> = body.iter().filter(|l| l.starts_with('+')).collect();
                            let minus: Vec<&&str> = body.iter().filter(|l| l.starts_with('-')).collect();
                            plus_minus = (plus.len(), minus.len());
                            if plus.len() != want_plus.len() || minus.len() != want_minus.len() {
                                fail(&mut res, "every-difference-shown", format!("{} + and {} - lines for Title{i}", want_plus.len(), want_minus.len()), format!("{} + / {} - in {:?}", plus.len(), minus.len(), trunc(&text)));
                            } else {
                                for (g, (raw, esc)) in plus.iter().zip(want_plus.iter()) {
                                    let rest = &g[1..];
                                    if !(rest.starts_with(prefix) && (rest[prefix.len()..].starts_with(raw.as_str()) || rest[prefix.len()..].starts_with(esc.as_str()))) {
                                        fail(&mut res, "unexpected-line-shown", format!("+{prefix}{}", trunc(esc)), format!("{:?}", trunc(g)));
                                    }
                                }
                                for (g, w) in minus.iter().zip(want_minus.iter()) {
                                    if g[1..] != format!("{prefix}{w}") {
                                        fail(&mut res, "unmatched-expectation-shown", format!("-{prefix}{}", trunc(w)), format!("{:?}", trunc(g)));
                                    }
                                }
                            }
                        }
                        Err(TestCaseError::InvalidExitCode { actual, .. }) => {
                            let ok = hunks.iter().any(|h| lines.iter().skip(h + 1).take(2).any(|l| **l == format!("+{prefix}[{actual}]")));
                            if !ok {
                                fail(&mut res, "exit-code-difference-shown", format!("hunk for Title{i} with +{prefix}[{actual}]"), format!("{:?}", trunc(&text)));
                            }
                        }
                        _ => {}
                    }
                }
            }
            _ => {
                let parsed: Result<serde_json::Value, String> = if case.renderer == 5 { serde_yaml::from_str::<serde_json::Value>(&text).map_err(|e| e.to_string()) } else { serde_json::from_str(&text).map_err(|e| e.to_string()) };
                match parsed {
                    Err(e) => fail(&mut res, "structured-output-well-formed", format!("{rname} parses"), format!("{e}: {:?}", trunc(&text))),
                    Ok(v) => {
                        let arr = v.as_array().cloned().unwrap_or_default();
                        if arr.len() != outcomes.len() {
                            fail(&mut res, "one-entry-per-outcome", format!("{} entries", outcomes.len()), format!("{} entries", arr.len()));
                        } else {
                            for (i, (e, k)) in arr.iter().zip(kinds.iter()).enumerate() {
                                let got = e.get("result").and_then(|r| r.get("kind")).and_then(|k| k.as_str()).unwrap_or("<none>");
                                if got != *k {
                                    fail(&mut res, "result-kind-per-entry", format!("entry {i}: {k}"), got.to_string());
                                }
                            }
                        }
                    }
                }
            }
        }
        res.outcome.push(("C19", hash64(&(case.renderer, &kinds, plus_minus.0.min(3), plus_minus.1.min(3)))));
        res
    }
    fn size(&self, case: &RenderCase) -> usize {
        let a: usize = case
            .atoms
            .iter()
            .map(|a| match a {
                Atom::Malformed { exps, lines, .. } => 10 + exps.len() * 10 + lines.len() * 10 + exps.iter().chain(lines.iter()).sum::<usize>(),
                Atom::LongList { len, required_at, lines } => 500 + len * 10 + required_at + lines,
                Atom::Shape { items } => 10 + items.len() * 10 + items.iter().map(|c| *c as usize).sum::<usize>(),
                _ => 5,
            })
            .sum();
        a * 10 + case.surrounding + case.absolute as usize + (case.line_number > 1) as usize
    }
}

fn trunc(s: &str) -> String {
    if s.chars().count() > 300 {
        format!("{}…", s.chars().take(300).collect::<String>())
    } else {
        s.to_string()
    }
}

fn console_colors(on: bool) {
    console::set_colors_enabled(on);
}
