//! C10: `update` rewrites only failing expectations and is idempotent (Markdown).

use std::sync::Arc;

use scrut::escaping::Escaper;
use scrut::expectation::ExpectationMaker;
use scrut::generators::generator::UpdateGenerator;
use scrut::generators::markdown::MarkdownUpdateGenerator;
use scrut::outcome::Outcome;
use scrut::output::{ExitStatus, Output};
use scrut::parsers::markdown::MarkdownParser;
use scrut::parsers::parser::{Parser, ParserType};
use scrut::rules::registry::RuleRegistry;
use scrut::testcase::TestCase;
use serde::{Deserialize, Serialize};

use crate::core::*;
use crate::engines::vc_md::segments;
use crate::refmodel::mdtok::*;

pub struct VcUpdate;

#[derive(Clone, Debug, Serialize, Deserialize, Hash)]
pub struct UpdCase {
    pub segs: Vec<usize>,
    pub keep: usize,
    pub crlf: bool,
    /// per test: 6 the first expected line is gone and the others stay (first test only), 0 pass, 1 changed output, 2 changed exit code (non-zero), 3 changed output without final newline, 4 exit code 0 where another was expected, 5 changed output with fence look-alike lines
    pub outcomes: Vec<u8>,
    /// end-to-end replay through `scrut update --replace --assume-yes` with real commands: index into `cli_documents()`
    #[serde(default)]
    pub cli_doc: Option<usize>,
    /// 1: every test is validated on stderr (`output_stream: stderr`, as document defaults would set it); stdout carries other text
    #[serde(default)]
    pub stderr: bool,
}

/// documents with real commands for the end-to-end replays: (text, number of tests)
pub fn cli_documents() -> Vec<String> {
    let blocks = [
        "```scrut\n$ echo out\nout\n```\n",                              // passes
        "```scrut\n$ echo changed\nstale\n```\n",                        // output changed
        "```scrut {timeout: 30s}\n# a comment\n$ echo a; (exit 2)\na\n```\n", // exit code changed
        "````scrut\n$ printf 'x\\n```\\nno newline'\nold\n````\n",          // fence in output, unterminated last line
        "```scrut\n# only a comment\n```\n",                               // no test
        "```scrut\n$ echo a; (exit 3)\na\n[3]\n```\n",                     // passes with exit code
        "```scrut {output_stream: stderr}\n$ echo to-stdout; echo to-stderr >&2; (exit 3)\nto-stderr\n```\n", // stderr selected, exit code changed
        "```scrut {output_stream: stderr}\n$ echo to-stdout; echo to-stderr >&2\nstale\n```\n",             // stderr selected, output changed
        "```scrut {output_stream: combined}\n$ echo to-stdout; echo to-stderr >&2; (exit 3)\nto-stdout\n```\n", // combined, output and exit code changed
        // the unmatched `x` goes; without it the multiline glob hands over one line earlier, the first update does not settle
        "```scrut\n$ printf '%s\\n' a1 a2 b\na* (glob+)\nx\n* (glob)\n```\n",
    ];
    let prose = ["# Title\n\nSome ``inline`` prose\n\n", "---\ndefaults:\n  keep_crlf: false\n---\n\n", "```bash\n$ not a test\n```\n\n", "trailing text without newline"];
    let mut docs = vec![];
    for (i, b) in blocks.iter().enumerate() {
        docs.push(format!("{}{}", prose[0], b));
        docs.push(format!("{}{}{}{}", prose[1], prose[0], b, prose[2]));
        for (j, c) in blocks.iter().enumerate() {
            if i != j {
                docs.push(format!("{}{}\n{}{}\n{}", prose[0], b, prose[2], c, prose[3]));
            }
        }
    }
    docs
}

thread_local! {
    static MD: MarkdownParser = MarkdownParser::new(Arc::new(ExpectationMaker::new(RuleRegistry::default())), &["scrut"], None);
}

fn parse(text: &str) -> Result<Vec<TestCase>, String> {
    match guard(|| MD.with(|p| p.parse(text)).map(|x| x.1).map_err(|e| format!("{e:#}"))) {
        Ok(r) => r,
        Err(p) => Err(format!("panic: {p}")),
    }
}

fn doc_text(segs: &[usize], keep: usize, crlf: bool) -> String {
    let all = segments();
    let lines: Vec<String> = segs.iter().flat_map(|s| all[*s].clone()).take(keep).collect();
    let nl = if crlf { "\r\n" } else { "\n" };
    let mut t = lines.join(nl);
    if !lines.is_empty() {
        t.push_str(nl);
    }
    t
}

/// an output that the test's expectations accept (expectation alphabet of vc_md::segments)
fn passing_output(tc: &TestCase) -> Vec<u8> {
    let mut out = vec![];
    for e in &tc.expectations {
        let s = e.original_string();
        let line = match s.as_str() {
            "out* (glob+)" => "outX".to_string(),
            other => other.to_string(),
        };
        out.extend_from_slice(line.as_bytes());
        out.push(b'\n');
    }
    out
}

fn outputs_for(tests: &[TestCase], kinds: &[u8], stderr: bool) -> Vec<Output> {
    let v = outputs_for_stdout(tests, kinds);
    if !stderr {
        return v;
    }
    v.into_iter().map(|o| Output { stderr: o.stdout, stdout: b"text on the stream\nthat is not validated\n".to_vec().into(), exit_code: o.exit_code }).collect()
}

fn select_stream(mut tests: Vec<TestCase>, stderr: bool) -> Vec<TestCase> {
    if stderr {
        for t in tests.iter_mut() {
            t.config.output_stream = Some(scrut::config::OutputStreamControl::Stderr);
        }
    }
    tests
}

fn outputs_for_stdout(tests: &[TestCase], kinds: &[u8]) -> Vec<Output> {
    tests
        .iter()
        .zip(kinds.iter())
        .map(|(tc, k)| {
            let expected = tc.exit_code.unwrap_or(0);
            match k {
                0 => Output { stdout: passing_output(tc).into(), stderr: vec![].into(), exit_code: ExitStatus::Code(expected) },
                1 => Output { stdout: b"new1\nnew (glob)\n".to_vec().into(), stderr: vec![].into(), exit_code: ExitStatus::Code(expected) },
                2 => Output { stdout: passing_output(tc).into(), stderr: vec![].into(), exit_code: ExitStatus::Code(if expected == 3 { 4 } else { 3 }) },
                3 => Output { stdout: b"new1\nlast".to_vec().into(), stderr: vec![].into(), exit_code: ExitStatus::Code(expected) },
                // changed output that contains fence look-alikes (an opening fence with info string, inline code after a fence run)
                5 => Output { stdout: b"```json\n{}\n```sh `date`\n".to_vec().into(), stderr: vec![].into(), exit_code: ExitStatus::Code(expected) },
                // the first expected line is not printed any more, the others are
                6 => {
                    let all = passing_output(tc);
                    let rest = match all.iter().position(|b| *b == b'\n') {
                        Some(p) => all[p + 1..].to_vec(),
                        None => vec![],
                    };
                    Output { stdout: rest.into(), stderr: vec![].into(), exit_code: ExitStatus::Code(expected) }
                }
                // the other direction of an exit code change: 0 where a code was expected (or 5 where none was)
                _ => Output { stdout: passing_output(tc).into(), stderr: vec![].into(), exit_code: ExitStatus::Code(if expected != 0 { 0 } else { 5 }) },
            }
        })
        .collect()
}

fn apply_update(doc: &str, tests: &[TestCase], outputs: &[Output]) -> Result<String, String> {
    let outcomes: Vec<Outcome> = tests
        .iter()
        .zip(outputs.iter())
        .map(|(tc, o)| Outcome { location: None, output: o.clone(), testcase: tc.clone(), format: ParserType::Markdown, escaping: Escaper::Unicode, result: tc.validate(o) })
        .collect();
    let refs: Vec<&Outcome> = outcomes.iter().collect();
    match guard(|| MarkdownUpdateGenerator::default().generate_update(doc, &refs).map_err(|e| format!("{e:#}"))) {
        Ok(r) => r,
        Err(p) => Err(format!("panic: {p}")),
    }
}

/// (kind, content) of every line outside scrut blocks
fn outside_lines(text: &str, d: &RefDoc) -> Vec<(u8, String)> {
    text.lines()
        .zip(d.classes.iter())
        .filter_map(|(l, c)| match c {
            LineClass::Outside => Some((0, l.to_string())),
            LineClass::FrontMatter => Some((1, l.to_string())),
            LineClass::VerbatimBlock => Some((2, l.to_string())),
            _ => None,
        })
        .collect()
}

fn block_lines(text: &str, d: &RefDoc, block: usize, body: bool) -> Vec<String> {
    text.lines()
        .zip(d.classes.iter())
        .filter_map(|(l, c)| match c {
            LineClass::ScrutComment(b) if *b == block && !body => Some(l.to_string()),
            LineClass::ScrutBody(b) if *b == block && body => Some(l.to_string()),
            _ => None,
        })
        .collect()
}

impl Engine for VcUpdate {
    type Case = UpdCase;
    fn name(&self) -> &'static str {
        "vc_update"
    }
    fn properties(&self) -> Vec<&'static str> {
        vec!["C10"]
    }
    fn chunk(&self) -> usize {
        32
    }
    fn cases(&self, tier: Tier) -> Box<dyn Iterator<Item = UpdCase> + Send + '_> {
        let s = if tier == Tier::Quick { 2 } else { 3 };
        let all = segments();
        let nseg = all.len();
        let lens: Vec<usize> = all.iter().map(|s| s.len()).collect();
        let quick = tier == Tier::Quick;
        let it = words_upto(nseg, s).filter(move |segs| {
            // quick: in two-segment documents the first segment comes from a core subset (all prose / front-matter /
            // verbatim / glued-title segments and every fifth scrut block variant); thorough: everything
            // (three-segment documents: the same restriction on the first segment, the other two range over everything)
            let core = |i: usize| i < 20 || (i - 20) % 5 == 0;
            // (the full cube of three-segment documents took 101 min; all three segments from the core subset keep every
            // kind of segment and every pair in the two-segment part, and bring the thorough tier to about 25 min)
            !((quick && segs.len() == 2 && !core(segs[0])) || (segs.len() == 3 && segs.iter().any(|i| !core(*i))))
        }).flat_map(move |segs| {
            let total: usize = segs.iter().map(|i| lens[*i]).sum();
            let first_of_last = total - segs.last().map(|i| lens[*i]).unwrap_or(0);
            let lens = lens.clone();
            (first_of_last + 1..=total).flat_map(move |keep| {
                let segs = segs.clone();
                let _ = &lens;
                [false, true].into_iter().flat_map(move |crlf| {
                    // the number of tests decides how many outcome vectors there are: tokenize once per document
                    let reference = tokenize(&doc_text(&segs, keep, crlf));
                    let n = (reference.tests.len() + matches!(reference.unterminated, Some(Unterminated::ScrutFence { body: Body::Test { .. } })) as usize).min(3);
                    let segs = segs.clone();
                    // (outcome 6 - the first expectation goes, the others stay - only for the first test)
                    let count = if n == 0 { 1 } else { 7 * 6u32.pow(n as u32 - 1) }; // 1, 7, 42, 252
                    (0..count).filter(move |code| !crlf || *code < 7).map(move |code| {
                        let code = code as u16;
                        UpdCase { segs: segs.clone(), keep, crlf, outcomes: vec![(code % 7) as u8, ((code / 7) % 6) as u8, (code / 42) as u8], cli_doc: None, stderr: false }
                    })
                })
            })
        });
        let cli = (0..cli_documents().len()).map(|i| UpdCase { segs: vec![], keep: 0, crlf: false, outcomes: vec![0, 0, 0], cli_doc: Some(i), stderr: false });
        // the same with stderr as the validated stream, for single-segment documents (the stream is orthogonal to the document's shape)
        let lens2: Vec<usize> = all.iter().map(|s| s.len()).collect();
        let on_stderr = (0..nseg).flat_map(move |seg| {
            let len = lens2[seg];
            (1..=len).flat_map(move |keep| (0..216u8).map(move |code| UpdCase { segs: vec![seg], keep, crlf: false, outcomes: vec![code % 6, (code / 6) % 6, code / 36], cli_doc: None, stderr: true }))
        });
        Box::new(it.chain(on_stderr).chain(cli))
    }
    fn relevant(&self, _property: &str, _case: &UpdCase) -> bool {
        // pruning happens at generation: CRLF variants only for vectors that differ in the first test (line endings are
        // orthogonal to outcomes), and only 6^n outcome vectors for a document with n tests
        true
    }
    fn bound(&self, tier: Tier) -> String {
        format!(
            "all documents of <= {} segments (quick: first segment of two-segment documents from a core subset; thorough: three-segment documents over that core subset only - with the other two segments unrestricted the tier took 101 min) over vc_md's {} segments with every truncation inside the last segment (LF; CRLF for outcome vectors that differ in the first test only) that the parser accepts x every outcome vector in {{pass, changed output, changed exit code, changed output without final newline, exit code 0 instead of the expected one, changed output with fence look-alikes}}^n (plus, for the first test, output that lost its first expected line) for the n <= 3 tests x 3 successive applications of update; single-segment documents also with stderr as the validated stream (stdout carrying other text); end-to-end documents with real commands incl. output_stream stderr/combined",
            if tier == Tier::Quick { 2 } else { 3 },
            segments().len()
        )
    }
    fn rule(&self, _p: &str) -> String {
        "one case = (document, outcome vector); vectors that only differ beyond the document's number of tests are skipped as duplicates; non-trivial = the document has at least one test and at least one line outside scrut blocks or a failing outcome; outcome = (number of tests, number of blocks, changed?, idempotent?)".into()
    }
    fn assumptions(&self, _p: &str) -> Vec<String> {
        vec![
            "documents the Markdown parser rejects and documents with constructs the reference tokenizer calls unspecified are skipped (the CLI never reaches the generator for the former)".into(),
            "line terminators are normalised to LF by update (documented in newline.rs); lines are compared by content".into(),
            "outputs are synthesised so that validate yields the intended outcome; the real validate decides the result that is handed to the generator; plus end-to-end replays with real commands through `scrut update --replace --assume-yes` (twice) and `scrut test`".into(),
        ]
    }

    fn check(&self, case: &UpdCase) -> CaseResult {
        let mut res = CaseResult::default();
        if let Some(i) = case.cli_doc {
            return check_cli(case, &cli_documents()[i]);
        }
        let doc = doc_text(&case.segs, case.keep, case.crlf);
        let reference = tokenize(&doc);
        if reference.unspecified.is_some() || matches!(reference.unterminated, Some(Unterminated::FrontMatter { .. })) {
            res.counters.push(("skipped_unspecified", 1));
            return res;
        }
        let tests = match parse(&doc) {
            Ok(t) => select_stream(t, case.stderr),
            Err(_) => {
                res.counters.push(("skipped_rejected_by_parser", 1));
                return res;
            }
        };
        let n = tests.len();
        if n > 3 || case.outcomes.iter().skip(n).any(|o| *o != 0) {
            res.counters.push(("skipped_duplicate_vector", 1));
            return res;
        }
        let kinds = &case.outcomes[..n];
        let outputs = outputs_for(&tests, kinds, case.stderr);
        let fail = |res: &mut CaseResult, clause: &str, exp: String, obs: String| {
            if res.findings.is_empty() {
                res.findings.push(Finding::new("C10", clause, exp, format!("{obs}; document = {doc:?}, outcomes = {kinds:?}")));
            }
        };
        let u1 = match apply_update(&doc, &tests, &outputs) {
            Ok(u) => u,
            Err(e) => {
                fail(&mut res, "update-returns", "an updated document".into(), e);
                return res;
            }
        };
        let ref_u1 = tokenize(&u1);
        // (1) lines outside scrut blocks preserved
        let (a, b) = (outside_lines(&doc, &reference), outside_lines(&u1, &ref_u1));
        if a != b {
            fail(&mut res, "lines-outside-blocks-preserved", format!("{a:?}"), format!("{b:?} in {u1:?}"));
        }
        // (2) same blocks: language, config, comments
        let blocks_a: Vec<(String, Option<String>)> = reference.blocks.iter().map(|b| (b.0.clone(), b.1.clone())).collect();
        let blocks_b: Vec<(String, Option<String>)> = ref_u1.blocks.iter().map(|b| (b.0.clone(), b.1.clone().map(|c| c.trim().to_string()))).collect();
        let blocks_a_trim: Vec<(String, Option<String>)> = blocks_a.iter().map(|b| (b.0.clone(), b.1.clone().map(|c| c.trim().to_string()))).collect();
        if blocks_a_trim != blocks_b {
            fail(&mut res, "blocks-language-and-config-kept", format!("{blocks_a:?}"), format!("{blocks_b:?} in {u1:?}"));
        } else {
            let mut test_idx = 0;
            for (bi, blk) in reference.blocks.iter().enumerate() {
                if block_lines(&doc, &reference, bi, false) != block_lines(&u1, &ref_u1, bi, false) {
                    fail(&mut res, "comment-lines-kept", format!("block {bi}: {:?}", block_lines(&doc, &reference, bi, false)), format!("{:?} in {u1:?}", block_lines(&u1, &ref_u1, bi, false)));
                }
                if blk.2 {
                    // (3) passing tests keep their body exactly
                    if test_idx < n && kinds[test_idx] == 0 && block_lines(&doc, &reference, bi, true) != block_lines(&u1, &ref_u1, bi, true) {
                        fail(&mut res, "passing-test-untouched", format!("block {bi}: {:?}", block_lines(&doc, &reference, bi, true)), format!("{:?}", block_lines(&u1, &ref_u1, bi, true)));
                    }
                    test_idx += 1;
                } else if block_lines(&doc, &reference, bi, true) != block_lines(&u1, &ref_u1, bi, true) {
                    fail(&mut res, "block-without-test-untouched", format!("block {bi}: {:?}", block_lines(&doc, &reference, bi, true)), format!("{:?}", block_lines(&u1, &ref_u1, bi, true)));
                }
            }
        }
        // (5) same commands, and the updated tests pass
        let tests1 = match parse(&u1) {
            Ok(t) => select_stream(t, case.stderr),
            Err(e) => {
                fail(&mut res, "updated-document-parses", format!("{u1:?} parses"), e);
                return res;
            }
        };
        let cmds = |t: &[TestCase]| t.iter().map(|x| x.shell_expression.clone()).collect::<Vec<_>>();
        if cmds(&tests1) != cmds(&tests) {
            fail(&mut res, "same-commands", format!("{:?}", cmds(&tests)), format!("{:?} in {u1:?}", cmds(&tests1)));
            return res;
        }
        // (4) idempotent under repeated application with the same outputs
        let mut cur = u1.clone();
        let mut cur_tests = tests1;
        let mut idem = true;
        for round in 2..=3 {
            let next = match apply_update(&cur, &cur_tests, &outputs) {
                Ok(u) => u,
                Err(e) => {
                    fail(&mut res, "update-returns", format!("application {round} returns"), e);
                    return res;
                }
            };
            if next != cur {
                idem = false;
                fail(&mut res, "idempotent", format!("application {round} changes nothing: {cur:?}"), format!("{next:?}"));
                break;
            }
            cur_tests = match parse(&next) {
                Ok(t) => select_stream(t, case.stderr),
                Err(e) => {
                    fail(&mut res, "updated-document-parses", format!("{next:?} parses"), e);
                    return res;
                }
            };
            cur = next;
        }
        if n > 0 && (!a.is_empty() || kinds.iter().any(|k| *k != 0)) {
            res.nontrivial.push(("C10", hash64(case)));
        }
        res.outcome.push(("C10", hash64(&(n, reference.blocks.len(), u1.replace("\r\n", "\n") == doc.replace("\r\n", "\n"), idem))));
        res
    }
    fn size(&self, case: &UpdCase) -> usize {
        case.keep * 100 + case.outcomes.iter().map(|o| *o as usize).sum::<usize>() + case.crlf as usize + case.stderr as usize * 50
    }
}

/// end-to-end: `scrut update --replace --assume-yes` twice, then `scrut test`
fn check_cli(case: &UpdCase, doc: &str) -> CaseResult {
    use crate::cli::*;
    let mut res = CaseResult::default();
    res.nontrivial.push(("C10", hash64(case)));
    let sb = Sandbox::new();
    let path = sb.write("doc.md", doc.as_bytes());
    let fail = |res: &mut CaseResult, clause: &str, exp: String, obs: String| {
        if res.findings.is_empty() {
            let f = Finding::new("C10", clause, exp, format!("{obs}; document = {doc:?}"));
            res.findings.push(if doc.contains("a* (glob+)\nx\n* (glob)") { f.tag("dropped-expectation-between-multiline-and-catch-all") } else { f });
        }
    };
    let reference = tokenize(doc);
    let run1 = run_scrut(&sb, &["update", "--no-color", "--replace", "--assume-yes", "doc.md"], &[], std::time::Duration::from_secs(60));
    if run1.status != Some(0) {
        fail(&mut res, "update-returns", "exit status 0".into(), format!("{:?}: {}", run1.status, run1.stderr_str().lines().last().unwrap_or("")));
        return res;
    }
    let u1 = std::fs::read_to_string(&path).unwrap_or_default();
    let ref_u1 = tokenize(&u1);
    let (a, b) = (outside_lines(doc, &reference), outside_lines(&u1, &ref_u1));
    if a != b {
        fail(&mut res, "lines-outside-blocks-preserved", format!("{a:?}"), format!("{b:?} in {u1:?}"));
    }
    let blocks = |d: &RefDoc| d.blocks.iter().map(|b| (b.0.clone(), b.1.clone().map(|c| c.trim().to_string()))).collect::<Vec<_>>();
    if blocks(&reference) != blocks(&ref_u1) {
        fail(&mut res, "blocks-language-and-config-kept", format!("{:?}", blocks(&reference)), format!("{:?} in {u1:?}", blocks(&ref_u1)));
    }
    for bi in 0..reference.blocks.len().min(ref_u1.blocks.len()) {
        if block_lines(doc, &reference, bi, false) != block_lines(&u1, &ref_u1, bi, false) {
            fail(&mut res, "comment-lines-kept", format!("{:?}", block_lines(doc, &reference, bi, false)), format!("{:?}", block_lines(&u1, &ref_u1, bi, false)));
        }
    }
    let run2 = run_scrut(&sb, &["update", "--no-color", "--replace", "--assume-yes", "doc.md"], &[], std::time::Duration::from_secs(60));
    let u2 = std::fs::read_to_string(&path).unwrap_or_default();
    if run2.status != Some(0) || u2 != u1 {
        fail(&mut res, "idempotent", format!("second update changes nothing: {u1:?}"), format!("status {:?}, {u2:?}", run2.status));
    }
    let run3 = run_scrut(&sb, &["test", "--no-color", "-r", "json", "doc.md"], &[], std::time::Duration::from_secs(60));
    let kinds = run3.json_kinds();
    if run3.status != Some(0) || kinds.as_ref().map(|k| k.iter().any(|x| x != "success")).unwrap_or(true) {
        fail(&mut res, "updated-document-passes", format!("`scrut test` passes on {u1:?}"), format!("status {:?} {kinds:?}", run3.status));
    }
    res.outcome.push(("C10", hash64(&("cli", u1 == doc, run3.status))));
    res
}
