pub mod vc_diff;

use crate::core::*;

pub fn run(property: &str, tier: Tier) -> i32 {
    match property {
        "C01" | "C02" | "C03" => run_engine(&vc_diff::VcDiff, property, tier),
        _ => machinery_failure(&format!("no engine for property {property}")),
    }
}

pub fn replay(r: &Replay) -> i32 {
    match r.engine.as_str() {
        "vc_diff" => replay_engine(&vc_diff::VcDiff, r),
        e => machinery_failure(&format!("unknown engine {e}")),
    }
}
