pub mod vc_diff;
pub mod vc_rules;
pub mod vc_cli;
pub mod vc_timeout;
pub mod vc_verdict;
pub mod vc_state;
pub mod vc_io;
pub mod vc_render;
pub mod vc_update;
pub mod vc_gen;
pub mod vc_cram;
pub mod vc_md;
pub mod vc_config;
pub mod vc_escape;
pub mod vc_expect;

use crate::core::*;

macro_rules! engines {
    ($( $eng:expr => [$($p:literal),*] ),* $(,)?) => {
        pub fn run(property: &str, tier: Tier) -> i32 {
            $( if [$($p),*].contains(&property) { return run_engine(&$eng, property, tier); } )*
            machinery_failure(&format!("no engine for property {property}"))
        }
        pub fn replay(r: &Replay) -> i32 {
            $( if r.engine == $eng.name() { return replay_engine(&$eng, r); } )*
            machinery_failure(&format!("unknown engine {}", r.engine))
        }
    };
}

engines! {
    vc_diff::VcDiff => ["C01", "C02", "C03"],
    vc_rules::VcRules => ["C04"],
    vc_cli::VcCli => ["C15", "C18", "C20"],
    vc_timeout::VcTimeout => ["C14"],
    vc_verdict::VcVerdict => ["C05"],
    vc_state::VcState::new() => ["C12"],
    vc_io::VcIo => ["C13"],
    vc_render::VcRender => ["C19"],
    vc_update::VcUpdate => ["C10"],
    vc_gen::VcGen => ["C09"],
    vc_cram::VcCram => ["C07"],
    vc_md::VcMd => ["C06"],
    vc_config::VcConfig => ["C16", "C17"],
    vc_escape::VcEscape => ["C11"],
    vc_expect::VcExpect => ["C08"],
}
