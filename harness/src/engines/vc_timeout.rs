//! C14: timeouts bound execution time and surface as failures.
//! (a) explicit exploration of the executor's timeline under a virtual clock (hook H1) with a
//!     fake Runner, against a reference timeline model; (b) real-time conformance replays of
//!     model traces through the real binary.

use std::collections::BTreeMap;
use std::path::Path;
use std::time::Duration;

use scrut::config::{DocumentConfig, TestCaseConfig, TestCaseWait};
use scrut::executors::context::{Context as ExecutionContext, ContextBuilder};
use scrut::executors::error::{ExecutionError, ExecutionTimeout};
use scrut::executors::executor::Executor;
use scrut::executors::runner::Runner;
use scrut::executors::stateful_executor::StatefulExecutor;
use scrut::executors::verif_clock;
use scrut::output::{ExitStatus, Output};
use scrut::testcase::TestCase;
use serde::{Deserialize, Serialize};
use serde_json::{json, Value};

use crate::cli::*;
use crate::core::*;
use crate::execs::Scratch;

pub struct VcTimeout;

#[derive(Clone, Debug, Serialize, Deserialize, Hash)]
pub struct Step {
    /// virtual seconds the command takes
    pub d: u64,
    /// per-test timeout in seconds
    pub timeout: Option<u64>,
    /// wait (sleep before the test) in seconds
    pub wait: Option<u64>,
}

#[derive(Clone, Debug, Serialize, Deserialize, Hash)]
pub enum TimeoutCase {
    /// document limit: None = default (900 s), Some(0) = unlimited
    Virtual { total: Option<u64>, steps: Vec<Step> },
    /// real-time replay through the binary; limits in milliseconds; `slow` = index of the slow test (sleep 30) if any
    Real { tests: usize, slow: Option<usize>, per_test_ms: Option<u64>, total_ms: Option<u64>, via_flag: bool, cram: bool, #[serde(default)] wait_ms: Option<u64>, #[serde(default)] stubborn: bool, #[serde(default)] closes_streams: bool, #[serde(default)] closes_late: bool },
    /// real-time replays of two behaviours of the pipe handling below scrut (the `subprocess` crate):
    /// kind 0: a command that floods stdout (300 MB as fast as it can) under a 100 ms limit;
    /// kind 1: a command that exits at once while more than a pipe buffer of its expression is still unread, default limits
    Pipe { kind: u8, cram: bool },
}

thread_local! {
    /// what the implementation did, as seen by the runner: (virtual now at the call, line number of the test case, timeout handed over, duration)
    static OBSERVED: std::cell::RefCell<Vec<(u64, usize, Option<u64>, u64)>> = const { std::cell::RefCell::new(vec![]) };
}

/// Runner that takes `d=<n>` virtual seconds, honouring the timeout it is given (the contract of limit_time)
struct FakeRunner;

impl Runner for FakeRunner {
    fn run(&self, _name: &str, testcase: &TestCase, _context: &ExecutionContext) -> anyhow::Result<Output> {
        let d: u64 = testcase.shell_expression.strip_prefix("d=").and_then(|s| s.parse().ok()).unwrap_or(0);
        OBSERVED.with(|o| o.borrow_mut().push((verif_clock::virtual_now().unwrap_or_default().as_secs(), testcase.line_number, testcase.config.timeout.map(|t| t.as_secs()), d)));
        let d = Duration::from_secs(d);
        match testcase.config.timeout {
            Some(t) if d > t => {
                verif_clock::advance(t);
                Ok(Output { stdout: vec![].into(), stderr: vec![].into(), exit_code: ExitStatus::Timeout(t) })
            }
            _ => {
                verif_clock::advance(d);
                Ok(Output { stdout: vec![].into(), stderr: vec![].into(), exit_code: ExitStatus::Code(0) })
            }
        }
    }
}

#[derive(Debug, PartialEq)]
enum RefResult {
    Ok(usize),
    /// (total?, index, outputs, virtual end time)
    Timeout { total: bool, index: usize },
}

/// reference timeline; returns (result, virtual time at return, deadline)
fn reference(total: Option<u64>, steps: &[Step]) -> (RefResult, u64, Option<u64>) {
    let deadline = match total {
        None => Some(900),
        Some(0) => None,
        Some(t) => Some(t),
    };
    let mut now = 0u64;
    for (i, s) in steps.iter().enumerate() {
        // the wait counts against the document limit and never extends beyond it
        let wait = s.wait.unwrap_or(0);
        now += match deadline {
            Some(d) => wait.min(d.saturating_sub(now)),
            None => wait,
        };
        let remaining = deadline.map(|d| d.saturating_sub(now));
        let (limit, is_total) = match (s.timeout, remaining) {
            (None, None) => (None, false),
            (Some(p), None) => (Some(p), false),
            (None, Some(r)) => (Some(r), true),
            (Some(p), Some(r)) => {
                if r < p {
                    (Some(r), true)
                } else {
                    (Some(p), false)
                }
            }
        };
        match limit {
            Some(l) if s.d > l => {
                now += l;
                return (RefResult::Timeout { total: is_total, index: i }, now, deadline);
            }
            _ => now += s.d,
        }
    }
    (RefResult::Ok(steps.len()), now, deadline)
}

impl Engine for VcTimeout {
    type Case = TimeoutCase;
    fn name(&self) -> &'static str {
        "vc_timeout"
    }
    fn properties(&self) -> Vec<&'static str> {
        vec!["C14"]
    }
    fn chunk(&self) -> usize {
        1
    }
    fn case_timeout(&self) -> Duration {
        Duration::from_secs(120)
    }
    fn level(&self, _p: &str) -> &'static str {
        "model_checking"
    }
    fn workers(&self) -> usize {
        // real-time replays measure wall time: do not oversubscribe
        8
    }
    fn cases(&self, tier: Tier) -> Box<dyn Iterator<Item = TimeoutCase> + Send + '_> {
        let mut v = vec![];
        // virtual: values chosen so that no two deadlines tie
        let ds = [1u64, 5];
        let timeouts = [None, Some(2u64), Some(8)];
        let waits: Vec<Option<u64>> = if tier == Tier::Quick { vec![None] } else { vec![None, Some(2)] };
        let totals = [None, Some(0u64), Some(3), Some(7), Some(12)];
        let mut singles = vec![];
        for d in ds {
            for t in timeouts {
                for w in &waits {
                    singles.push(Step { d, timeout: t, wait: *w });
                }
            }
        }
        let maxn = 3;
        for total in totals {
            for n in 1..=maxn {
                for w in words(singles.len(), n) {
                    v.push(TimeoutCase::Virtual { total, steps: w.iter().map(|i| singles[*i].clone()).collect() });
                }
            }
        }
        // quick also covers the wait dimension on single steps and pairs
        if tier == Tier::Quick {
            let with_wait: Vec<Step> = ds.iter().flat_map(|d| timeouts.iter().flat_map(move |t| [None, Some(2u64)].into_iter().map(move |w| Step { d: *d, timeout: *t, wait: w }))).collect();
            for total in totals {
                for n in 1..=2 {
                    for w in words(with_wait.len(), n) {
                        if w.iter().all(|i| with_wait[*i].wait.is_none()) {
                            continue;
                        }
                        v.push(TimeoutCase::Virtual { total, steps: w.iter().map(|i| with_wait[*i].clone()).collect() });
                    }
                }
            }
        }
        // real-time conformance replays
        let mut real = vec![];
        for cram in [false, true] {
            for tests in 1..=3usize {
                for slow in std::iter::once(None).chain((0..tests).map(Some)) {
                    for per_test_ms in [None, Some(400u64), Some(3000)] {
                        for (total_ms, via_flag) in [(None, false), (Some(2000u64), false), (Some(2000), true)] {
                            if cram && (per_test_ms.is_some() || (total_ms.is_some() && !via_flag)) {
                                continue; // cram: document limit from the command line only
                            }
                            if per_test_ms.is_none() && total_ms.is_none() && slow.is_some() {
                                continue; // nothing would stop the slow command
                            }
                            if slow.is_none() && (tests != 2) {
                                continue;
                            }
                            real.push(TimeoutCase::Real { tests, slow, per_test_ms, total_ms, via_flag, cram, wait_ms: None, stubborn: false, closes_streams: false, closes_late: false });
                            // the same with a shell that ignores SIGTERM: the limit still has to end it
                            if slow.is_some() {
                                real.push(TimeoutCase::Real { tests, slow, per_test_ms, total_ms, via_flag, cram, wait_ms: None, stubborn: true, closes_streams: false, closes_late: false });
                                // .. and with a command that closes its stdout and stderr before it goes on running
                                real.push(TimeoutCase::Real { tests, slow, per_test_ms, total_ms, via_flag, cram, wait_ms: None, stubborn: false, closes_streams: true, closes_late: false });
                                // .. and one that does so shortly before the limit: the wait for the process that follows has
                                // only the rest of the limit
                                if !cram && per_test_ms != Some(400) {
                                    real.push(TimeoutCase::Real { tests, slow, per_test_ms, total_ms, via_flag, cram, wait_ms: None, stubborn: false, closes_streams: true, closes_late: true });
                                }
                            }
                            // the document limit elapses while the slow test case is still waiting (`wait` longer than the limit):
                            // the command then starts with no time left and has to time out at once
                            if !cram && slow.is_some() && total_ms.is_some() && per_test_ms != Some(400) {
                                real.push(TimeoutCase::Real { tests, slow, per_test_ms, total_ms, via_flag, cram, wait_ms: Some(3000), stubborn: false, closes_streams: false, closes_late: false });
                            }
                        }
                    }
                }
            }
        }
        if tier == Tier::Quick {
            // the replays that distinguish the orderings: slow test in first/last position, every limit combination
            real.retain(|c| match c {
                TimeoutCase::Real { tests, slow, wait_ms, .. } => *tests == 2 && (*slow == Some(0) || *slow == Some(1) || slow.is_none()) && (wait_ms.is_none() || *slow == Some(1)),
                _ => true,
            });
        }
        v.extend(real);
        // (the flood only per-process: the single-script executor needs more than 30 s to take 300 MB of output apart)
        v.push(TimeoutCase::Pipe { kind: 0, cram: false });
        for cram in [false, true] {
            v.push(TimeoutCase::Pipe { kind: 1, cram });
        }
        Box::new(v.into_iter())
    }
    fn bound(&self, tier: Tier) -> String {
        format!(
            "(a) virtual clock: every document of 1..3 test cases over duration {{1,5}} x per-test timeout {{absent,2,8}}{} x document limit {{absent->900,0=unlimited,3,7,12}} through the real StatefulExecutor::execute_all with a fake Runner honouring the timeout it is handed; (b) real time: {} replays through `scrut test -r json` (fast = true, slow = sleep 30 - also from a shell that ignores SIGTERM/SIGINT/SIGHUP and after closing stdout and stderr -, per-test limit 400 ms / 3 s, document limit 2 s by front-matter or --timeout-seconds, Markdown and Cram, slow test in every position)",
            if tier == Tier::Quick { " (and wait {absent,2} on documents of 1..2 test cases)" } else { " x wait {absent,2}" },
            if tier == Tier::Quick { "the 2-test" } else { "all 1..3-test" }
        )
    }
    fn rule(&self, _p: &str) -> String {
        "a state of the explored system is (virtual now, index, outputs so far); each virtual case is one complete run (trace) of the executor and is compared step by step with the reference timeline; non-trivial = at least one limit applies to at least one test case; real-time cases are conformance replays of model traces against the binary".into()
    }
    fn assumptions(&self, _p: &str) -> Vec<String> {
        vec![
            "L1: the kernel clock cannot be owned; the timeout arithmetic is explored under a virtual clock (hook H1 in stateful_executor.rs), real-time behaviour only by replays with >= 2.5x separation between fast, limit and slow".into(),
            "the fake Runner implements the contract of subprocess' limit_time: it returns after min(duration, timeout) and reports a timeout iff the duration exceeds it".into(),
            "durations and limits are chosen so that no two deadlines tie".into(),
        ]
    }
    fn extra_coverage(&self, _p: &str, s: &Stats) -> BTreeMap<String, Value> {
        let mut m = BTreeMap::new();
        let states = s.sets.get("states").map(|x| x.len()).unwrap_or(0);
        let transitions = s.sets.get("transitions").map(|x| x.len()).unwrap_or(0);
        m.insert("states".into(), json!(states.max(1)));
        m.insert("transitions".into(), json!(transitions.max(1)));
        m.insert("states_rule".into(), json!("distinct (document limit, virtual now, next test case) observed at the calls of the runner and at return; transitions = distinct (state, per-test timeout, wait, duration, timeout handed to the runner)"));
        m.insert("traces_validated_against_impl".into(), json!(s.counters.get("virtual_traces").copied().unwrap_or(0) + s.counters.get("real_time_replays").copied().unwrap_or(0)));
        m
    }

    fn check(&self, case: &TimeoutCase) -> CaseResult {
        let mut res = CaseResult::default();
        let key = hash64(case);
        match case {
            TimeoutCase::Virtual { total, steps } => {
                let scratch = Scratch::new();
                let tcs: Vec<TestCase> = steps
                    .iter()
                    .enumerate()
                    .map(|(i, s)| {
                        let mut config = TestCaseConfig::default_markdown();
                        config.timeout = s.timeout.map(Duration::from_secs);
                        config.wait = s.wait.map(|w| TestCaseWait { timeout: Duration::from_secs(w), path: None });
                        TestCase { title: format!("t{i}"), shell_expression: format!("d={}", s.d), expectations: vec![], exit_code: None, line_number: i + 1, config }
                    })
                    .collect();
                let refs: Vec<&TestCase> = tcs.iter().collect();
                let mut dc = DocumentConfig::default_markdown();
                dc.total_timeout = match total {
                    None => Some(Duration::from_secs(900)),
                    Some(t) => Some(Duration::from_secs(*t)),
                };
                let ctx = ContextBuilder::default().work_directory(scratch.sub("work")).temp_directory(scratch.sub("tmp")).file("doc.md".into()).config(dc).build().unwrap();
                verif_clock::set_virtual_now(Some(Duration::ZERO));
                OBSERVED.with(|o| o.borrow_mut().clear());
                let executor = StatefulExecutor::new(Box::new(|_: &Path| Box::new(FakeRunner) as Box<dyn Runner>));
                let result = guard(|| executor.execute_all(&refs, &ctx));
                let end = verif_clock::virtual_now().unwrap_or_default().as_secs();
                verif_clock::set_virtual_now(None);
                let (want, want_end, deadline) = reference(*total, steps);
                if steps.iter().any(|s| s.timeout.is_some()) || deadline.is_some() {
                    res.nontrivial.push(("C14", key));
                }
                res.counters.push(("virtual_traces", 1));
                // explored system: state = (document limit, virtual now, index of the next test case) at each call of the runner and at return;
                // transition = (state, per-test timeout, wait, duration, timeout handed to the runner)
                let observed = OBSERVED.with(|o| o.borrow().clone());
                for (now, line, handed, d) in &observed {
                    res.sets.push(("states", hash64(&(total, *now, *line))));
                    let st = &steps[line - 1];
                    res.sets.push(("transitions", hash64(&(total, *now, *line, st.timeout, st.wait, *d, *handed))));
                }
                res.sets.push(("states", hash64(&(total, end, usize::MAX, observed.len()))));
                let describe = || format!("document limit {total:?}, tests {:?}", steps.iter().map(|s| format!("d={} timeout={:?} wait={:?}", s.d, s.timeout, s.wait)).collect::<Vec<_>>());
                let mut tags = vec![];
                if steps.iter().any(|s| s.wait.is_some()) {
                    tags.push("uses-wait");
                }
                let mut fail = |clause: &str, exp: String, obs: String| {
                    let mut f = Finding::new("C14", clause, exp, obs);
                    for t in &tags {
                        f = f.tag(t);
                    }
                    res.findings.push(f);
                };
                let got = match result {
                    Err(p) => {
                        fail("no-crash", describe(), format!("panic: {p}"));
                        return res;
                    }
                    Ok(Ok(outs)) => {
                        if outs.iter().any(|o| matches!(o.exit_code, ExitStatus::Timeout(_))) {
                            fail("timeout-surfaces-as-error", describe(), "Ok(outputs) containing a timed out output".into());
                        }
                        RefResult::Ok(outs.len())
                    }
                    Ok(Err(ExecutionError::Timeout(which, outs))) => {
                        let index = outs.len().saturating_sub(1);
                        if !matches!(outs.last().map(|o| &o.exit_code), Some(ExitStatus::Timeout(_))) || outs[..index].iter().any(|o| o.exit_code != ExitStatus::Code(0)) {
                            fail("outputs-up-to-the-aborted-test", format!("{}: {} passed outputs then the timed out one", describe(), index), format!("{:?}", outs.iter().map(|o| o.exit_code.clone()).collect::<Vec<_>>()));
                        }
                        match which {
                            ExecutionTimeout::Total => RefResult::Timeout { total: true, index },
                            ExecutionTimeout::Index(i) => {
                                if i != index {
                                    fail("timeout-index", format!("{}: index {index}", describe()), format!("{i}"));
                                }
                                RefResult::Timeout { total: false, index }
                            }
                        }
                    }
                    Ok(Err(e)) => {
                        fail("unexpected-error", describe(), format!("{e}"));
                        return res;
                    }
                };
                res.outcome.push(("C14", hash64(&("virtual", format!("{want:?}")))));
                if got != want {
                    fail("whichever-limit-is-reached-first", format!("{}: {want:?} at virtual time {want_end}s", describe()), format!("{got:?} at virtual time {end}s"));
                } else if end != want_end {
                    fail("aborted-once-the-limit-elapsed", format!("{}: returns at virtual time {want_end}s", describe()), format!("{end}s"));
                }
                if let Some(d) = deadline {
                    if end > d {
                        fail("document-limit-bounds-execution", format!("{}: execution ends by {d}s", describe()), format!("ends at {end}s"));
                    }
                }
            }
            TimeoutCase::Pipe { kind, cram } => {
                res.nontrivial.push(("C14", key));
                res.counters.push(("real_time_replays", 1));
                let sb = Sandbox::new();
                let filler: String = (0..3000).map(|i| format!("> : filler line {i:04} xxxxxxxxxxxxxxxxxxxxxxxxxxxxxxxxxxxxxxxxxxxxxxxx\n")).collect();
                let (cmd, cfg, args_extra): (String, &str, Vec<&str>) = match (kind, cram) {
                    (0, false) => ("head -c 300000000 /dev/zero | tr '\\0' x > /dev/stderr".into(), " {timeout: 100ms}", vec![]),
                    (0, true) => ("head -c 300000000 /dev/zero | tr '\\0' x".into(), "", vec!["--timeout-seconds", "1"]),
                    _ => (format!("exit 0\n{}", if *cram { filler.replace("> ", "  > ") } else { filler.clone() }).trim_end().to_string(), "", vec![]),
                };
                let doc = if *cram { format!("Test 0\n  $ {cmd}\n\nTest 1\n  $ true\n") } else { format!("# Test 0\n\n```scrut{cfg}\n$ {cmd}\n```\n\n# Test 1\n\n```scrut\n$ true\n```\n") };
                let name = if *cram { "doc.t" } else { "doc.md" };
                sb.write(name, doc.as_bytes());
                let mut args = vec!["test", "--no-color", "-r", "json"];
                args.extend(args_extra);
                args.push(name);
                let run = run_scrut(&sb, &args, &[], Duration::from_secs(30));
                let kinds = run.json_kinds();
                let ms = run.wall.as_millis() as u64;
                res.outcome.push(("C14", hash64(&("pipe", kind, cram, run.status, kinds.as_ref().ok().cloned()))));
                if *kind == 0 {
                    let limit = if *cram { 1000 } else { 100 };
                    let timed_out = kinds.as_ref().map(|k| k.first().map(|x| x == "timeout").unwrap_or(false)).unwrap_or(false);
                    if run.timed_out || !timed_out || ms > limit + 1000 {
                        res.findings.push(Finding::new("C14", "aborted-once-the-limit-elapsed", format!("{} document, a command that writes 300 MB as fast as it can under a limit of {limit} ms: reported as timed out, within [{limit}, {}] ms", if *cram { "cram" } else { "markdown" }, limit + 1000), format!("{kinds:?} after {ms} ms (status {:?})", run.status)).tag("output-flood"));
                    }
                } else {
                    let fine = kinds.as_ref().map(|k| k.iter().all(|x| x == "success")).unwrap_or(false) || (*cram && run.status == Some(1));
                    if !fine {
                        res.findings.push(Finding::new("C14", "no-timeout-inside-limits", format!("{} document whose first command is `exit 0` followed by 190 KB of further lines of the same expression, default limits: no timeout", if *cram { "cram" } else { "markdown" }), format!("{kinds:?} after {ms} ms (status {:?}); stderr {:?}", run.status, run.stderr_str().lines().last().unwrap_or(""))).tag("exit-with-unread-script"));
                    }
                }
            }
            TimeoutCase::Real { tests, slow, per_test_ms, total_ms, via_flag, cram, wait_ms, stubborn, closes_streams, closes_late } => {
                res.nontrivial.push(("C14", key));
                res.counters.push(("real_time_replays", 1));
                let sb = Sandbox::new();
                let pidfile = sb.scratch.path().join("pids");
                let mut doc = String::new();
                if let (Some(t), false, false) = (total_ms, via_flag, cram) {
                    doc.push_str(&format!("---\ntotal_timeout: {t}ms\n---\n\n"));
                }
                for i in 0..*tests {
                    let is_slow = *slow == Some(i);
                    // (limit that applies to the slow test, for the variant that closes its streams 400 ms before it)
                    let applicable_ms = match (per_test_ms, total_ms) {
                        (Some(p), Some(t)) => (*p).min(*t),
                        (Some(p), None) => *p,
                        (None, Some(t)) => *t,
                        _ => 0,
                    };
                    let late = format!("echo $$ >> \"$VERIF_PIDFILE\"; sleep {}.{:03}; exec >&- 2>&-; sleep 30 & echo $! >> \"$VERIF_PIDFILE\"; wait", applicable_ms.saturating_sub(400) / 1000, applicable_ms.saturating_sub(400) % 1000);
                    let cmd = match (is_slow, *stubborn) {
                        (true, false) if *closes_streams && *closes_late => late.as_str(),
                        (true, false) if *closes_streams => "echo $$ >> \"$VERIF_PIDFILE\"; exec >&- 2>&-; sleep 30 & echo $! >> \"$VERIF_PIDFILE\"; wait",
                        (true, false) => "echo $$ >> \"$VERIF_PIDFILE\"; sleep 30 & echo $! >> \"$VERIF_PIDFILE\"; wait",
                        (true, true) => "trap '' TERM INT HUP; echo $$ >> \"$VERIF_PIDFILE\"; sleep 30 & echo $! >> \"$VERIF_PIDFILE\"; wait",
                        _ => "true",
                    };
                    if *cram {
                        doc.push_str(&format!("Test {i}\n  $ {cmd}\n\n"));
                    } else {
                        let mut parts = vec![];
                        if let (true, Some(ms)) = (is_slow, per_test_ms) {
                            parts.push(format!("timeout: {ms}ms"));
                        }
                        if let (true, Some(ms)) = (is_slow, wait_ms) {
                            parts.push(format!("wait: {ms}ms"));
                        }
                        let cfg = if parts.is_empty() { String::new() } else { format!(" {{{}}}", parts.join(", ")) };
                        doc.push_str(&format!("# Test {i}\n\n```scrut{cfg}\n$ {cmd}\n```\n\n"));
                    }
                }
                let name = if *cram { "doc.t" } else { "doc.md" };
                sb.write(name, doc.as_bytes());
                let mut args: Vec<String> = vec!["test".into(), "--no-color".into(), "-r".into(), "json".into()];
                if let (Some(t), true) = (total_ms, via_flag) {
                    args.push("--timeout-seconds".into());
                    args.push(format!("{}", t / 1000));
                }
                args.push(name.into());
                let argrefs: Vec<&str> = args.iter().map(|s| s.as_str()).collect();
                let mut survivors: Vec<(i32, bool)> = vec![];
                let run = run_scrut_observed(&sb, &argrefs, &[("VERIF_PIDFILE", pidfile.to_string_lossy().to_string())], Duration::from_secs(20), &mut || {
                    // scrut has exited: which of the timed out command's processes are still there?
                    std::thread::sleep(Duration::from_millis(100));
                    if let Ok(text) = std::fs::read_to_string(&pidfile) {
                        for (k, l) in text.lines().enumerate() {
                            if let Ok(pid) = l.trim().parse::<i32>() {
                                survivors.push((pid, exists_process(pid)));
                            }
                            let _ = k;
                        }
                    }
                });
                let describe = || format!("{} document with {tests} test(s), slow test{} at {slow:?} (wait before it: {wait_ms:?} ms), per-test limit {per_test_ms:?} ms, document limit {total_ms:?} ms ({})", if *cram { "cram" } else { "markdown" }, if *stubborn { " (its shell ignores SIGTERM/SIGINT/SIGHUP)" } else if *closes_late { " (closes stdout and stderr 400 ms before the limit)" } else if *closes_streams { " (closes stdout and stderr first)" } else { "" }, if *via_flag { "--timeout-seconds" } else { "front-matter" });
                // expected: which limit applies to the slow test
                let limit_ms: Option<u64> = match (slow, per_test_ms, total_ms) {
                    (None, _, _) => None,
                    (Some(_), Some(p), Some(t)) => Some((*p).min(*t)),
                    (Some(_), Some(p), None) => Some(*p),
                    (Some(_), None, Some(t)) => Some(*t),
                    (Some(_), None, None) => None,
                };
                // a wait longer than the document limit: the limit elapses during the wait
                let limit_ms = match (wait_ms, total_ms, limit_ms) {
                    (Some(w), Some(t), Some(_)) if w >= t => Some(*t),
                    _ => limit_ms,
                };
                let kinds = run.json_kinds();
                res.outcome.push(("C14", hash64(&("real", run.status, kinds.as_ref().ok().cloned()))));
                if run.timed_out {
                    res.findings.push(Finding::new("C14", "aborted-once-the-limit-elapsed", format!("{}: scrut ends after about {limit_ms:?} ms", describe()), "still running after 20 s".to_string()));
                    return res;
                }
                match (slow, limit_ms) {
                    (Some(s), Some(limit)) => {
                        let want_status = 50;
                        if run.status != Some(want_status) {
                            res.findings.push(Finding::new("C14", "timeout-surfaces-as-failure", format!("{}: exit status 50", describe()), format!("{:?}; stderr {:?}", run.status, run.stderr_str().lines().last().unwrap_or(""))));
                        }
                        if !*cram {
                            match &kinds {
                                Ok(k) => {
                                    let mut want: Vec<&str> = vec![];
                                    for i in 0..*tests {
                                        want.push(if i < *s { "success" } else if i == *s { "timeout" } else { "skipped" });
                                    }
                                    if k.iter().map(|x| x.as_str()).collect::<Vec<_>>() != want {
                                        res.findings.push(Finding::new("C14", "timeout-then-skipped", format!("{}: {want:?}", describe()), format!("{k:?}")));
                                    }
                                }
                                Err(e) => res.findings.push(Finding::new("C14", "report-produced", describe(), e.clone())),
                            }
                        } else if let Ok(k) = &kinds {
                            if k.iter().any(|x| x == "success") && *s == 0 {
                                res.findings.push(Finding::new("C14", "timeout-then-skipped", format!("{}: no success", describe()), format!("{k:?}")));
                            }
                        }
                        let ms = run.wall.as_millis() as u64;
                        let slack = if *closes_late { 1500 } else { 2500 };
                        if ms + 50 < limit || ms > limit + slack {
                            res.findings.push(Finding::new("C14", "aborted-once-the-limit-elapsed", format!("{}: wall time within [{limit}, {}] ms", describe(), limit + slack), format!("{ms} ms")).tag(if per_test_ms.is_some() && total_ms.is_some() { "both-limits-set" } else { "one-limit-set" }));
                        }
                        // the aborted command
                        if let Some((pid, alive)) = survivors.first() {
                            if *alive {
                                res.findings.push(Finding::new("C14", "timed-out-shell-is-terminated", format!("{}: the shell of the timed out test case (pid {pid}) is gone when scrut has exited", describe()), "still running".to_string()));
                            }
                        }
                        if let Some((pid, alive)) = survivors.get(1) {
                            if *alive {
                                res.findings.push(Finding::new("C14", "timed-out-command-tree-is-terminated", format!("{}: the command started by the timed out test case (`sleep 30`, pid {pid}) is gone when scrut has exited", describe()), "still running".to_string()).tag("grandchild-of-timed-out-shell"));
                            }
                        }
                    }
                    _ => {
                        // nothing is slow: never reported as timed out
                        if run.status != Some(0) || kinds.as_ref().map(|k| k.iter().any(|x| x != "success")).unwrap_or(true) {
                            res.findings.push(Finding::new("C14", "no-timeout-inside-limits", format!("{}: all success, exit status 0", describe()), format!("{:?} {:?}", run.status, kinds)));
                        }
                    }
                }
            }
        }
        res
    }
    fn size(&self, case: &TimeoutCase) -> usize {
        match case {
            TimeoutCase::Virtual { total, steps } => steps.len() * 100 + steps.iter().map(|s| s.d as usize + s.timeout.unwrap_or(0) as usize + s.wait.unwrap_or(0) as usize * 3).sum::<usize>() + total.unwrap_or(0) as usize,
            TimeoutCase::Pipe { kind, cram } => 20_000 + *kind as usize * 2 + *cram as usize,
            TimeoutCase::Real { tests, wait_ms, stubborn, closes_streams, closes_late, .. } => 10_000 + tests + wait_ms.is_some() as usize * 10 + *stubborn as usize * 5 + *closes_streams as usize * 6 + *closes_late as usize,
        }
    }
}
