//! C12: shell state carries from one test case to the next as if run in one shell.
//! Explicit-state breadth-first search over canonical shell states; every transition is
//! executed by the real StatefulExecutor + BashRunner (one bash per test case) and compared
//! with ONE bash session that is fed the same snippets.

use std::collections::{BTreeMap, HashMap};
use std::io::Write;
use std::process::{Command, Stdio};
use std::sync::{Condvar, Mutex};

use scrut::config::{DocumentConfig, TestCaseConfig};
use scrut::testcase::TestCase;
use serde::{Deserialize, Serialize};
use serde_json::{json, Value};

use crate::core::*;
use crate::execs::*;

/// (text, detached)
pub const SNIPPETS: [(&str, bool); 64] = [
    // what the runner writes behind the restored state (it exports the configured environment): keyword mode, a function named export
    ("set -k", false),
    ("export() { echo my export; }", false),
    // text inside a function / an alias that looks like a line of the state file
    ("hd() { cat <<EOF\ndeclare -f hd\nset -o posix\nEOF\n}", false),
    ("alias ml='echo a\nset -o b'", false),
    // variables of the user (or documented as carried over) whose names begin like the ones bash owns
    ("BASH_TOOLS_DIR='/opt/my tools'; export BASH_ENV=/nonexistent/prelude.sh", false),
    // functions and aliases named like the builtins the restored state is written in
    ("declare() { echo \"my declare $*\"; }", false),
    ("alias shopt='echo nope'", false),
    // things the state carrier itself depends on: external programs found through PATH, names of commands it calls
    ("PATH=/nonexistent", false),
    ("grep() { echo mock-grep; }", false),
    ("cd() { builtin cd \"$@\" && echo \"now in ${PWD##*/}\"; }", false),
    ("alias cd='pushd'", false),
    // variables that bash initialises itself; export attribute of an inherited variable; options reset by other options
    ("unset IFS", false),
    ("export -n HOME", false),
    ("set -E", false),
    // attributes: name reference, lower-casing, exported array
    ("declare -n ref=X", false),
    ("declare -l L=ABC", false),
    ("ref=via-ref 2>/dev/null || true", false),
    // the test case installs its own EXIT trap (scrut carries the state in an EXIT trap of its own)
    ("trap 'true' EXIT; export T=1", false),
    ("set -o pipefail", false),
    // errexit: the state carrier itself must survive it (its own pipelines may legitimately return non-zero)
    ("set -e", false),
    ("set +e", false),
    // an inherited variable set again after it was unset; export attribute removed; a read-only variable
    ("export HOME=/nowhere", false),
    ("export -n X", false),
    ("readonly R=1", false),
    // names that merely start with the name of a variable scrut does not carry over
    ("TMPFILE=/x; export LANG_CODE=de", false),
    // names and variables the state carrier itself uses or inherits
    ("code=mine", false),
    ("unset HOME", false),
    ("cd - >/dev/null 2>&1", false),
    // a function defined before an alias for a word of its body
    ("say(){ echo \"$@\"; }; af(){ say fn; }", false),
    ("alias say='say al'", false),
    // variables the state carrier's own commands could trip over
    ("IFS=:", false),
    ("Y='* ? [a] $HOME `x`'", false),
    ("f(){ echo 1; }; export -f f", false),
    // a function whose body only parses with extglob (enabled on the line before, as it has to be in any bash)
    ("shopt -s extglob\nxg() { case \"$1\" in @(a|b)) echo in;; *) echo out;; esac; }", false),
    ("export X=v1", false),
    ("export X=v2", false),
    ("unset X", false),
    ("Y='two words'", false),
    ("Y=$'l1\\nl2'", false),
    ("Y='q\"uo'\\''te \u{fc}'", false),
    ("arr=(a \"b c\")", false),
    ("declare -A m=([k]='v w')", false),
    ("unset arr", false),
    ("f(){ echo 1; }", false),
    ("f(){ echo 2; }", false),
    ("unset -f f", false),
    ("alias g='echo hi'", false),
    ("unalias g 2>/dev/null", false),
    ("set -o noclobber", false),
    ("set +o noclobber", false),
    ("set -u", false),
    ("set -f", false),
    ("shopt -s extglob", false),
    ("shopt -s nullglob", false),
    ("shopt -u extglob", false),
    ("mkdir -p d && cd d", false),
    ("cd ..", false),
    ("pushd d >/dev/null 2>&1", false),
    ("popd >/dev/null 2>&1", false),
    ("export X=v2", true),
    ("f(){ echo 3; }", true),
    ("export Z=\"${X:-none}-suffix\"", false),
    ("declare -i n=5; n+=1", false),
    ("Y=\"${Y:-}+\"; export Y", false),
];

pub const PROBE: &str = r#"declare -p X Y Z arr m n IFS TMPFILE LANG_CODE code HOME OLDPWD R T ref L BASH_TOOLS_DIR BASH_ENV 2>/dev/null || true
declare -f af || true
af 2>/dev/null || true
declare -f f || true
declare -f xg || true
xg a 2>/dev/null || true
alias g 2>/dev/null || true
alias ml 2>/dev/null || true
hd 2>/dev/null || true
set +o | while read -r a b c; do case "$c" in noclobber|nounset|noglob|errexit|pipefail|errtrace) builtin echo "$a $b $c";; esac; done
shopt -p extglob nullglob || true
echo "PWD=$PWD"
dirs -l -p
g 2>/dev/null || true
f 2>/dev/null || true
echo "X=${X:-unset}""#;

/// snippets that can return a non-zero status in some state: with errexit on they would end the single reference
/// session, while scrut starts a new shell for the next test case - there is no single-session equivalent, so such
/// histories are not part of the model
const MAY_FAIL: [&str; 7] = ["unalias g 2>/dev/null", "cd - >/dev/null 2>&1", "pushd d >/dev/null 2>&1", "popd >/dev/null 2>&1", "readonly R=1", "mkdir -p d && cd d", "cd .."];

/// the core alphabet of the deeper second phase of the thorough tier
const CORE: [&str; 14] = [
    "export X=v1",
    "unset X",
    "f(){ echo 1; }",
    "alias g='echo hi'",
    "set -o noclobber",
    "set -e",
    "shopt -s extglob\nxg() { case \"$1\" in @(a|b)) echo in;; *) echo out;; esac; }",
    "shopt -u extglob",
    "mkdir -p d && cd d",
    "pushd d >/dev/null 2>&1",
    "unset HOME",
    "readonly R=1",
    "say(){ echo \"$@\"; }; af(){ say fn; }",
    "alias say='say al'",
];

fn errexit_on(history: &[usize]) -> bool {
    let mut on = false;
    for h in history {
        if SNIPPETS[*h].1 {
            continue;
        }
        match SNIPPETS[*h].0 {
            "set -e" => on = true,
            "set +e" => on = false,
            _ => {}
        }
    }
    on
}

fn in_model(history: &[usize], next: usize) -> bool {
    // with `shopt` aliased away the snippet that needs extglob for its own second line is a syntax error, which ends a
    // single session for good (scrut starts a new shell for the next test case): nothing to compare
    let shopt_aliased = history.iter().any(|h| !SNIPPETS[*h].1 && SNIPPETS[*h].0.starts_with("alias shopt="));
    if shopt_aliased && SNIPPETS[next].0.starts_with("shopt -s extglob\n") {
        return false;
    }
    !(errexit_on(history) && MAY_FAIL.contains(&SNIPPETS[next].0))
}

#[derive(Clone, Debug, Serialize, Deserialize, Hash)]
pub struct StateCase {
    /// history of snippet indices; the last one is the transition being explored
    pub history: Vec<usize>,
}

struct Bfs {
    /// reference state -> shortest history reaching it
    states: HashMap<String, Vec<usize>>,
    /// histories of the level being handed out
    queue: Vec<Vec<usize>>,
    /// states discovered by the level in flight (to be expanded next)
    next_level: Vec<Vec<usize>>,
    outstanding: usize,
    depth: usize,
    max_depth: usize,
    transitions: u64,
    done: bool,
    alphabet: Vec<usize>,
    /// further (alphabet, max depth) searches to run from the empty history after this one
    phases: Vec<(Vec<usize>, usize)>,
    /// (states, depth completed) of the finished phases
    finished: Vec<(usize, usize)>,
    initial: String,
}

pub struct VcState {
    bfs: Mutex<Option<Bfs>>,
    cv: Condvar,
}

impl VcState {
    pub fn new() -> Self {
        Self { bfs: Mutex::new(None), cv: Condvar::new() }
    }
}

fn normalise(s: &str, root: &std::path::Path) -> String {
    s.replace(&root.to_string_lossy().to_string(), "<S>")
}

/// the same snippets typed into ONE bash session
fn reference_run(history: &[usize]) -> Result<String, String> {
    let scratch = Scratch::new();
    let work = scratch.sub("n1/n2/n3/work");
    let _tmp = scratch.sub("tmp");
    let mut script = String::from("shopt -s expand_aliases\n");
    for h in history {
        if SNIPPETS[*h].1 {
            continue; // detached test cases leave no state behind
        }
        // (what a snippet prints is not state: only the probe's output is compared)
        // (not a group: a snippet may switch an option on that its own later lines need to be parsed)
        script.push_str(&format!("exec 8>&1 9>&2 >/dev/null 2>&1\n{}\nexec >&8 2>&9 8>&- 9>&-\n", SNIPPETS[*h].0));
    }
    script.push_str(PROBE);
    script.push('\n');
    let mut child = Command::new(BASH).current_dir(&work).stdin(Stdio::piped()).stdout(Stdio::piped()).stderr(Stdio::null()).spawn().map_err(|e| e.to_string())?;
    child.stdin.take().unwrap().write_all(script.as_bytes()).map_err(|e| e.to_string())?;
    let out = child.wait_with_output().map_err(|e| e.to_string())?;
    Ok(normalise(&String::from_utf8_lossy(&out.stdout), scratch.path()))
}

/// one test case per snippet through the real executor (one bash process each), then the probe
fn implementation_run(history: &[usize]) -> Result<String, String> {
    let scratch = Scratch::new();
    let mut tcs: Vec<TestCase> = history
        .iter()
        .map(|h| {
            let mut config = TestCaseConfig::default_markdown();
            if SNIPPETS[*h].1 {
                config.detached = Some(true);
            }
            TestCase { title: "s".into(), shell_expression: SNIPPETS[*h].0.into(), expectations: vec![], exit_code: None, line_number: 1, config }
        })
        .collect();
    tcs.push(TestCase { title: "probe".into(), shell_expression: PROBE.into(), expectations: vec![], exit_code: None, line_number: 99, config: TestCaseConfig::default_markdown() });
    match guard(|| execute(Exec::Stateful, &tcs, DocumentConfig::default_markdown(), &scratch)) {
        Ok(Ok(outs)) => {
            let last = outs.last().ok_or("no outputs")?;
            let bytes: Vec<u8> = (&last.stdout).into();
            Ok(normalise(&String::from_utf8_lossy(&bytes), scratch.path()))
        }
        Ok(Err(e)) => Err(format!("execution error: {e}")),
        Err(p) => Err(format!("panic: {p}")),
    }
}

impl Engine for VcState {
    type Case = StateCase;
    fn name(&self) -> &'static str {
        "vc_state"
    }
    fn properties(&self) -> Vec<&'static str> {
        vec!["C12"]
    }
    fn chunk(&self) -> usize {
        1 // the case iterator blocks between BFS levels; see `cases`
    }
    fn case_timeout(&self) -> std::time::Duration {
        std::time::Duration::from_secs(120)
    }
    fn level(&self, _p: &str) -> &'static str {
        "model_checking"
    }

    fn cases(&self, tier: Tier) -> Box<dyn Iterator<Item = StateCase> + Send + '_> {
        let core: Vec<usize> = CORE.iter().map(|c| SNIPPETS.iter().position(|s| s.0 == *c && !s.1).unwrap_or_else(|| machinery_failure(&format!("core snippet {c:?} not in the alphabet")))).collect();
        let (max_depth, alphabet, phases): (usize, Vec<usize>, Vec<(Vec<usize>, usize)>) = match tier {
            Tier::Quick => (2, (0..SNIPPETS.len()).collect(), vec![]),
            Tier::Thorough => (3, (0..SNIPPETS.len()).collect(), vec![(core, 4)]),
        };
        let initial = reference_run(&[]).unwrap_or_else(|e| machinery_failure(&format!("reference bash does not run: {e}")));
        let mut states = HashMap::new();
        states.insert(initial.clone(), vec![]);
        *self.bfs.lock().unwrap() = Some(Bfs { states, queue: alphabet.iter().map(|a| vec![*a]).collect(), next_level: vec![], outstanding: 0, depth: 1, max_depth, transitions: 0, done: false, alphabet, phases, finished: vec![], initial });
        Box::new(std::iter::from_fn(move || {
            let mut g = self.bfs.lock().unwrap();
            loop {
                let b = g.as_mut().unwrap();
                if b.done {
                    return None;
                }
                if let Some(h) = b.queue.pop() {
                    b.outstanding += 1;
                    return Some(StateCase { history: h });
                }
                if b.outstanding > 0 {
                    g = self.cv.wait(g).unwrap();
                    continue;
                }
                // level complete: expand the newly discovered states
                if b.depth >= b.max_depth || b.next_level.is_empty() {
                    if !b.phases.is_empty() {
                        // next search: from the empty history again, its own state table
                        let (alphabet, max_depth) = b.phases.remove(0);
                        b.finished.push((b.states.len(), b.depth));
                        b.states = HashMap::new();
                        b.states.insert(b.initial.clone(), vec![]);
                        b.queue = alphabet.iter().map(|a| vec![*a]).collect();
                        b.next_level = vec![];
                        b.depth = 1;
                        b.max_depth = max_depth;
                        b.alphabet = alphabet;
                        continue;
                    }
                    b.done = true;
                    self.cv.notify_all();
                    return None;
                }
                b.depth += 1;
                let fresh = std::mem::take(&mut b.next_level);
                for h in fresh {
                    for a in &b.alphabet {
                        if !in_model(&h, *a) {
                            continue;
                        }
                        let mut n = h.clone();
                        n.push(*a);
                        b.queue.push(n);
                    }
                }
            }
        }))
    }

    fn bound(&self, tier: Tier) -> String {
        format!(
            "breadth-first search from the empty history over {} state-changing snippets (a function that needs extglob to be parsed, export/modify/unset variables - also inherited ones -, read-only, export -n, values with spaces/newlines/quotes/non-ASCII, indexed and associative arrays, integer attribute, functions, aliases, set -o noclobber/-u/-f/-e, shopt, cd, pushd/popd, state-dependent updates, two detached snippets); states are merged on the reference probe output; every transition out of every state at depth < {} is executed{}; with errexit on, snippets that can return non-zero are not taken (they would end the single reference session)",
            SNIPPETS.len(),
            if tier == Tier::Quick { 2 } else { 3 },
            if tier == Tier::Quick { String::new() } else { format!("; second search over a core alphabet of {} snippets: every transition out of every state at depth < 4", CORE.len()) }
        )
    }
    fn rule(&self, _p: &str) -> String {
        "state = canonical probe output of the single-session reference (declare -p of the alphabet's variables, declare -f, alias, the set/shopt options, PWD, directory stack, results of calling the alias/function); a transition = (state reached by its shortest history, snippet); non-trivial = every transition (each runs the real executor with one bash per test case and compares the probe with the reference); distinct = distinct histories".into()
    }
    fn assumptions(&self, _p: &str) -> Vec<String> {
        vec![
            "results hold for /bin/bash of this image (L4)".into(),
            "merging histories with equal probe output is sound for this oracle because the probe covers every object the alphabet can create; scrut's hidden state (the state file) is a function of the same objects unless a violation was already reported on the way".into(),
            "options that write to stderr (-x, -v) are excluded; errexit is in the alphabet, but histories in which a command fails while it is on are not (the single-session reference ends there, scrut starts a new shell: nothing to compare)".into(),
            "detached snippets have no file-system effects and are omitted on the reference side (they leave no state behind)".into(),
        ]
    }
    fn extra_coverage(&self, _p: &str, _s: &Stats) -> BTreeMap<String, Value> {
        let g = self.bfs.lock().unwrap();
        let b = g.as_ref().unwrap();
        let mut m = BTreeMap::new();
        m.insert("states".into(), json!(b.states.len() + b.finished.iter().map(|f| f.0).sum::<usize>()));
        m.insert("states_per_search".into(), json!(b.finished.iter().map(|f| f.0).chain([b.states.len()]).collect::<Vec<_>>()));
        m.insert("depth_completed_per_search".into(), json!(b.finished.iter().map(|f| f.1).chain([b.depth]).collect::<Vec<_>>()));
        m.insert("transitions".into(), json!(b.transitions));
        m.insert("traces_validated_against_impl".into(), json!(b.transitions));
        m.insert("depth_completed".into(), json!(b.depth));
        m.insert("frontier_empty".into(), json!(b.next_level.is_empty() && b.queue.is_empty()));
        m
    }

    fn check(&self, case: &StateCase) -> CaseResult {
        let mut res = CaseResult::default();
        let reference = reference_run(&case.history);
        let implementation = implementation_run(&case.history);
        let mut tags: Vec<String> = case.history.iter().map(|h| format!("snippet:{}", SNIPPETS[*h].0)).collect();
        tags.sort();
        tags.dedup();
        let describe = || case.history.iter().map(|h| format!("{}{}", SNIPPETS[*h].0, if SNIPPETS[*h].1 { " [detached]" } else { "" })).collect::<Vec<_>>().join(" ; ");
        let mut new_state = None;
        match (&reference, &implementation) {
            (Ok(r), Ok(i)) => {
                if r != i {
                    let mut f = Finding::new("C12", "state-as-in-one-shell", format!("after [{}] the probe prints {r:?}", describe()), format!("{i:?}"));
                    f.tags = tags.clone();
                    res.findings.push(f);
                }
                new_state = Some(r.clone());
                res.outcome.push(("C12", hash64(r)));
            }
            (Ok(r), Err(e)) => {
                let mut f = Finding::new("C12", "state-as-in-one-shell", format!("after [{}] the probe prints {r:?}", describe()), e.clone());
                f.tags = tags.clone();
                res.findings.push(f);
                new_state = Some(r.clone());
            }
            (Err(e), _) => machinery_failure(&format!("reference bash failed: {e}")),
        }
        res.nontrivial.push(("C12", hash64(&case.history)));
        // feed the search
        let mut g = self.bfs.lock().unwrap();
        if let Some(b) = g.as_mut() {
            // replays run without a search in progress (outstanding == 0)
            if b.outstanding > 0 {
                b.transitions += 1;
                if let Some(s) = new_state {
                    if !b.states.contains_key(&s) {
                        b.states.insert(s, case.history.clone());
                        b.next_level.push(case.history.clone());
                    }
                }
                b.outstanding -= 1;
                self.cv.notify_all();
            }
        }
        res
    }
    fn size(&self, case: &StateCase) -> usize {
        case.history.len() * 100 + case.history.iter().sum::<usize>()
    }
}
