//! C05: a test passes only if it completed with the expected exit code and output.
//! (a) exhaustive verdict table through TestCase::validate; (b) command behaviours
//! (exit codes, output, death by signal) as documents through the real binary.

use std::time::Duration;

use scrut::config::{OutputStreamControl, TestCaseConfig};
use scrut::expectation::ExpectationMaker;
use scrut::output::{ExitStatus, Output};
use scrut::rules::registry::RuleRegistry;
use scrut::testcase::{TestCase, TestCaseError};
use serde::{Deserialize, Serialize};

use crate::cli::*;
use crate::core::*;

pub struct VcVerdict;

#[derive(Clone, Debug, Serialize, Deserialize, Hash)]
pub enum VerdictCase {
    /// status: 0..3 = Code(0,1,2,255), 4 Unknown, 5 Timeout, 6 Skipped, 7 Detached
    Table { status: u8, expected: Option<i32>, stream: u8, stdout_ok: bool, stderr_ok: bool, with_expectation: bool },
    /// document of scenario items through `scrut test -r json`
    Cli { items: Vec<usize>, cram: bool },
    /// which stream the verdict is taken on, end to end: output_stream in the front-matter defaults, inline, and the
    /// command-line flag (0 unset, 1 stdout, 2 stderr, 3 combined; flag: 0 none, 1 --no-combine-output, 2 --combine-output)
    /// x where the expected line / a noise line are written (shape)
    Stream { doc: u8, inline: u8, flag: u8, shape: u8, cram: bool },
}

/// (command, stdout, stderr)
pub const SHAPES: [(&str, &str, &str); 5] = [
    ("echo hello; echo noise >&2", "hello\n", "noise\n"),
    ("echo noise; echo hello >&2", "noise\n", "hello\n"),
    ("echo hello", "hello\n", ""),
    ("echo hello >&2", "", "hello\n"),
    ("echo hello; echo hello >&2", "hello\n", "hello\n"),
];

/// (name, command in markdown, command in cram, expectation lines, written exit code, reference kind, produces exit code?)
pub struct Item {
    pub name: &'static str,
    pub md: &'static str,
    pub cram: &'static str,
    pub expectations: &'static [&'static str],
    pub code: Option<i32>,
    pub kind: &'static str,
    pub has_exit_code: bool,
    /// Markdown only: the test case is marked `detached: true` (not a test: at most one result, a success)
    pub detached: bool,
}

pub const ITEMS: [Item; 17] = [
    // bash strict mode: scrut's own code behind the expression runs under errexit and pipefail, too
    Item { name: "strict-mode-exit2-expected", md: "set -eo pipefail; echo hello; exit 2", cram: "echo hello; (exit 2)", expectations: &["hello"], code: Some(2), kind: "success", has_exit_code: true, detached: false },
    // a test case that redefines what scrut's own code around the expression calls, or sets options that end / disable a shell:
    // the verdicts of the following test cases are still about their own commands
    Item { name: "defines-functions-named-exit-unset-trap", md: "exit() { builtin exit 0; }", cram: "true", expectations: &[], code: None, kind: "success", has_exit_code: true, detached: false },
    Item { name: "set-t", md: "set -t", cram: "true", expectations: &[], code: None, kind: "success", has_exit_code: true, detached: false },
    Item { name: "set-n", md: "set -n", cram: "true", expectations: &[], code: None, kind: "success", has_exit_code: true, detached: false },
    Item { name: "false", md: "false", cram: "false", expectations: &[], code: None, kind: "invalid_exit_code", has_exit_code: true, detached: false },
    // a detached helper before other tests: results must stay attached to their own test cases
    Item { name: "detached-helper", md: "sleep 0.05", cram: "true", expectations: &[], code: None, kind: "success", has_exit_code: true, detached: true },
    // a shell killed by signal N is not a shell that exited with 128+N: even when the document expects that code
    Item { name: "kill-9-expecting-137", md: "kill -9 $$", cram: "kill -9 $$", expectations: &[], code: Some(137), kind: "", has_exit_code: false, detached: false },
    Item { name: "kill-term-expecting-143", md: "kill -TERM $$", cram: "kill -TERM $$", expectations: &[], code: Some(143), kind: "", has_exit_code: false, detached: false },
    Item { name: "true", md: "true", cram: "true", expectations: &[], code: None, kind: "success", has_exit_code: true, detached: false },
    Item { name: "exit1", md: "exit 1", cram: "(exit 1)", expectations: &[], code: None, kind: "invalid_exit_code", has_exit_code: true, detached: false },
    Item { name: "exit2-expected", md: "exit 2", cram: "(exit 2)", expectations: &[], code: Some(2), kind: "success", has_exit_code: true, detached: false },
    Item { name: "prints-expected", md: "echo hello", cram: "echo hello", expectations: &["hello"], code: None, kind: "success", has_exit_code: true, detached: false },
    Item { name: "prints-other", md: "echo other", cram: "echo other", expectations: &["hello"], code: None, kind: "malformed_output", has_exit_code: true, detached: false },
    Item { name: "kill-9", md: "kill -9 $$", cram: "kill -9 $$", expectations: &[], code: None, kind: "", has_exit_code: false, detached: false },
    Item { name: "kill-term", md: "kill -TERM $$", cram: "kill -TERM $$", expectations: &[], code: None, kind: "", has_exit_code: false, detached: false },
    Item { name: "exec-nonexistent", md: "exec /nonexistent/program", cram: "(exec /nonexistent/program)", expectations: &["* (glob*)"], code: None, kind: "invalid_exit_code", has_exit_code: true, detached: false },
    Item { name: "wrong-code-and-output", md: "echo other; exit 3", cram: "echo other; (exit 3)", expectations: &["hello"], code: Some(2), kind: "invalid_exit_code", has_exit_code: true, detached: false },
];

fn document(items: &[usize], cram: bool) -> String {
    let mut d = String::new();
    for (i, it) in items.iter().enumerate() {
        let item = &ITEMS[*it];
        if cram {
            d.push_str(&format!("Test {i}\n  $ {}\n", item.cram));
            for e in item.expectations {
                d.push_str(&format!("  {e}\n"));
            }
            if let Some(c) = item.code {
                d.push_str(&format!("  [{c}]\n"));
            }
            d.push('\n');
        } else {
            d.push_str(&format!("# Test {i}\n\n```scrut{}\n$ {}\n", if item.detached { " {detached: true}" } else { "" }, item.md));
            for e in item.expectations {
                d.push_str(&format!("{e}\n"));
            }
            if let Some(c) = item.code {
                d.push_str(&format!("[{c}]\n"));
            }
            d.push_str("```\n\n");
        }
    }
    d
}

thread_local! {
    static MAKER: ExpectationMaker = ExpectationMaker::new(RuleRegistry::default());
}

impl Engine for VcVerdict {
    type Case = VerdictCase;
    fn name(&self) -> &'static str {
        "vc_verdict"
    }
    fn properties(&self) -> Vec<&'static str> {
        vec!["C05"]
    }
    fn chunk(&self) -> usize {
        4
    }
    fn case_timeout(&self) -> Duration {
        Duration::from_secs(120)
    }
    fn cases(&self, tier: Tier) -> Box<dyn Iterator<Item = VerdictCase> + Send + '_> {
        let mut v = vec![];
        // status 7 (Detached) is not enumerated: detached test cases are not tests, `scrut test` never validates them
        for status in 0..7u8 {
            for expected in [None, Some(0), Some(1), Some(2), Some(255)] {
                for stream in 0..4u8 {
                    for stdout_ok in [false, true] {
                        for stderr_ok in [false, true] {
                            for with_expectation in [false, true] {
                                v.push(VerdictCase::Table { status, expected, stream, stdout_ok, stderr_ok, with_expectation });
                            }
                        }
                    }
                }
            }
        }
        let depth = if tier == Tier::Quick { 2 } else { 3 };
        for w in words_upto(ITEMS.len(), depth) {
            if w.is_empty() {
                continue;
            }
            // a user function named `exit` legitimately changes what a later `exit N` of the user does (functions carry over):
            // only commands that do not call `exit` are judged after it
            if let Some(p) = w.iter().position(|i| ITEMS[*i].name.starts_with("defines-functions")) {
                if w[p + 1..].iter().any(|i| ITEMS[*i].md.contains("exit")) {
                    continue;
                }
            }
            for cram in [false, true] {
                v.push(VerdictCase::Cli { items: w.clone(), cram });
            }
        }
        for shape in 0..SHAPES.len() as u8 {
            for flag in 0..3u8 {
                for doc in 0..4u8 {
                    for inline in 0..4u8 {
                        v.push(VerdictCase::Stream { doc, inline, flag, shape, cram: false });
                    }
                }
                v.push(VerdictCase::Stream { doc: 0, inline: 0, flag, shape, cram: true });
            }
        }
        Box::new(v.into_iter())
    }
    fn bound(&self, tier: Tier) -> String {
        format!(
            "(c) the stream the verdict is taken on, end to end: output_stream {{unset,stdout,stderr,combined}} in the front-matter defaults x inline x command-line flag {{none,--no-combine-output,--combine-output}} x 5 placements of the expected line and a noise line on stdout/stderr (Markdown; Cram: flag x placements) = 255 runs of `scrut test -r json`; (a) the whole verdict table: 7 exit statuses (Code 0/1/2/255, Unknown, Timeout, Skipped) x expected code {{absent,0,1,2,255}} x output_stream {{unset,stdout,stderr,combined}} x stdout accepted? x stderr accepted? x with/without expectation = 2240 validate calls; (b) every document of 1..{} test cases over {} command behaviours (exit codes, expected/other output, wrong code AND wrong output, kill -9, kill -TERM, exec of a missing program) in Markdown and Cram through `scrut test -r json`",
            if tier == Tier::Quick { 2 } else { 3 },
            ITEMS.len()
        )
    }
    fn rule(&self, _p: &str) -> String {
        "cases are distinct tuples by construction; non-trivial = table rows where the status is not Code(expected) or a stream is not accepted, and documents containing at least one failing or signal-killed command; outcome = (family, reference verdict class, observed class)".into()
    }
    fn assumptions(&self, _p: &str) -> Vec<String> {
        vec![
            "whether the selected stream is accepted is C01-C03's business; here outputs are chosen so that acceptance is obvious (exact line or a different line)".into(),
            "/bin/bash of this image; in Cram (single-script) mode non-zero codes are produced with a subshell, and a killed script may be answered by a scrut error (exit status 1) - what is forbidden is a reported success".into(),
        ]
    }

    fn check(&self, case: &VerdictCase) -> CaseResult {
        let mut res = CaseResult::default();
        let key = hash64(case);
        match case {
            VerdictCase::Table { status, expected, stream, stdout_ok, stderr_ok, with_expectation } => {
                let exit = match status {
                    0 => ExitStatus::Code(0),
                    1 => ExitStatus::Code(1),
                    2 => ExitStatus::Code(2),
                    3 => ExitStatus::Code(255),
                    4 => ExitStatus::Unknown,
                    5 => ExitStatus::Timeout(Duration::from_secs(1)),
                    6 => ExitStatus::Skipped,
                    _ => ExitStatus::Detached,
                };
                let good: &[u8] = if *with_expectation { b"x\n" } else { b"" };
                let out = |ok: bool| -> Vec<u8> { if ok { good.to_vec() } else { b"unexpected\n".to_vec() } };
                let output = Output { stdout: out(*stdout_ok).into(), stderr: out(*stderr_ok).into(), exit_code: exit.clone() };
                let mut config = TestCaseConfig::default_markdown();
                config.output_stream = match stream {
                    0 => None,
                    1 => Some(OutputStreamControl::Stdout),
                    2 => Some(OutputStreamControl::Stderr),
                    _ => Some(OutputStreamControl::Combined),
                };
                let tc = TestCase { title: "t".into(), shell_expression: "cmd".into(), expectations: if *with_expectation { vec![MAKER.with(|m| m.parse("x")).unwrap()] } else { vec![] }, exit_code: *expected, line_number: 1, config };
                let selected_ok = if *stream == 2 { *stderr_ok } else { *stdout_ok };
                let code_ok = matches!(exit, ExitStatus::Code(c) if c == expected.unwrap_or(0));
                let want_ok = code_ok && selected_ok;
                if !want_ok {
                    res.nontrivial.push(("C05", key));
                }
                match guard(|| tc.validate(&output)) {
                    Err(p) => res.findings.push(Finding::new("C05", "no-crash", "verdict", format!("panic: {p}"))),
                    Ok(r) => {
                        let class = match &r {
                            Ok(()) => "ok",
                            Err(TestCaseError::InvalidExitCode { .. }) => "invalid_exit_code",
                            Err(TestCaseError::MalformedOutput(_)) => "malformed_output",
                            Err(TestCaseError::Timeout) => "timeout",
                            Err(TestCaseError::Skipped) => "skipped",
                            Err(TestCaseError::InternalError(_)) => "internal",
                        };
                        res.outcome.push(("C05", hash64(&("table", want_ok, class))));
                        if r.is_ok() != want_ok {
                            let f = Finding::new("C05", "passes-iff-expected-code-and-output", format!("{exit:?} expected={expected:?} selected stream accepted={selected_ok} -> pass={want_ok}"), format!("{class}"));
                            res.findings.push(if matches!(exit, ExitStatus::Code(_)) { f } else { f.tag("status-without-exit-code") });
                        }
                        if let ExitStatus::Code(c) = exit {
                            if c != expected.unwrap_or(0) && class != "invalid_exit_code" {
                                res.findings.push(Finding::new("C05", "wrong-exit-code-reported-as-such", format!("exit {c} expected {expected:?} -> invalid_exit_code regardless of output"), class.to_string()));
                            }
                        }
                    }
                }
            }
            VerdictCase::Stream { doc, inline, flag, shape, cram } => {
                let sb = Sandbox::new();
                let names = ["", "stdout", "stderr", "combined"];
                let (cmd, out, err) = SHAPES[*shape as usize];
                let mut text = String::new();
                let name = if *cram {
                    text.push_str(&format!("Test 0\n  $ {cmd}\n  hello\n"));
                    "doc.t"
                } else {
                    if *doc > 0 {
                        text.push_str(&format!("---\ndefaults:\n  output_stream: {}\n---\n\n", names[*doc as usize]));
                    }
                    let cfg = if *inline > 0 { format!(" {{output_stream: {}}}", names[*inline as usize]) } else { String::new() };
                    text.push_str(&format!("# Test 0\n\n```scrut{cfg}\n$ {cmd}\nhello\n```\n"));
                    "doc.md"
                };
                sb.write(name, text.as_bytes());
                let mut args = vec!["test", "--no-color", "-r", "json"];
                match flag {
                    1 => args.push("--no-combine-output"),
                    2 => args.push("--combine-output"),
                    _ => {}
                }
                args.push(name);
                let run = run_scrut(&sb, &args, &[], Duration::from_secs(60));
                let format_default = if *cram { 3 } else { 1 };
                let effective = [[0u8, 1, 3][*flag as usize], *inline, *doc, format_default].into_iter().find(|v| *v != 0).unwrap();
                let selected = match effective {
                    1 => out.to_string(),
                    2 => err.to_string(),
                    _ => format!("{out}{err}"), // both commands write stdout first
                };
                let want = if selected == "hello\n" { "success" } else { "malformed_output" };
                res.nontrivial.push(("C05", key));
                let kinds = run.json_kinds();
                res.outcome.push(("C05", hash64(&("stream", effective, shape, kinds.as_ref().ok().cloned()))));
                match kinds {
                    Ok(k) if k == vec![want.to_string()] => {}
                    other => res.findings.push(Finding::new(
                        "C05",
                        "verdict-on-the-selected-stream",
                        format!("{} `{cmd}` expecting `hello`, output_stream defaults={} inline={} flag={} -> selected {} = {selected:?}: [{want}]", if *cram { "cram" } else { "markdown" }, names[*doc as usize], names[*inline as usize], ["none", "--no-combine-output", "--combine-output"][*flag as usize], names[effective as usize]),
                        format!("{other:?}; exit status {:?}", run.status),
                    )),
                }
            }
            VerdictCase::Cli { items, cram } => {
                let sb = Sandbox::new();
                let name = if *cram { "doc.t" } else { "doc.md" };
                let text = document(items, *cram);
                sb.write(name, text.as_bytes());
                let run = run_scrut(&sb, &["test", "--no-color", "-r", "json", name], &[], Duration::from_secs(60));
                let killer = items.iter().position(|i| !ITEMS[*i].has_exit_code);
                if items.iter().any(|i| ITEMS[*i].kind != "success") {
                    res.nontrivial.push(("C05", key));
                }
                let describe = || format!("{} document {:?}", if *cram { "cram" } else { "markdown" }, items.iter().map(|i| ITEMS[*i].name).collect::<Vec<_>>());
                if run.timed_out {
                    res.findings.push(Finding::new("C05", "run-terminates", describe(), "scrut did not finish within 60s".to_string()));
                    return res;
                }
                let kinds = run.json_kinds();
                let status = run.status;
                res.outcome.push(("C05", hash64(&("cli", cram, status, kinds.as_ref().ok().cloned()))));
                let tag = if killer.is_some() { "command-killed-by-signal" } else { "all-commands-exit" };
                match (&kinds, killer) {
                    (Ok(k), None) => {
                        let want: Vec<&str> = items.iter().map(|i| ITEMS[*i].kind).collect();
                        // every result belongs to the test case the reference says; a detached Markdown test case has at most one result
                        let titled: Vec<(String, &str, bool)> = items.iter().enumerate().map(|(i, it)| (format!("Test {i}"), ITEMS[*it].kind, ITEMS[*it].detached && !*cram)).collect();
                        let got_titled = run.json_results().unwrap_or_default();
                        fn rec(g: &[(String, String)], w: &[(String, &str, bool)]) -> bool {
                            match w.first() {
                                None => g.is_empty(),
                                Some((t, k, optional)) => {
                                    (g.first().map(|x| x.0 == *t && x.1 == *k).unwrap_or(false) && rec(&g[1..], &w[1..])) || (*optional && rec(g, &w[1..]))
                                }
                            }
                        }
                        let _ = k;
                        if !rec(&got_titled, &titled) {
                            res.findings.push(Finding::new("C05", "result-kind-per-test", format!("{}: {titled:?}", describe()), format!("{got_titled:?} (exit status {status:?})")).tag(tag));
                        }
                        let want_status = if want.iter().any(|w| *w != "success") { 50 } else { 0 };
                        if status != Some(want_status) {
                            res.findings.push(Finding::new("C05", "exit-status", format!("{}: {want_status}", describe()), format!("{status:?}; stderr: {}", run.stderr_str().lines().last().unwrap_or(""))).tag(tag));
                        }
                    }
                    (Ok(_), Some(ki)) => {
                        // before the killed command: as the reference says; from it on: never success (results are identified by title)
                        let got_titled = run.json_results().unwrap_or_default();
                        for (title, kind) in &got_titled {
                            let Some(i) = title.strip_prefix("Test ").and_then(|n| n.parse::<usize>().ok()).filter(|i| *i < items.len()) else {
                                res.findings.push(Finding::new("C05", "result-kind-per-test", format!("{}: results carry the titles of the document's test cases", describe()), format!("{got_titled:?}")).tag(tag));
                                break;
                            };
                            if i < ki {
                                if kind != ITEMS[items[i]].kind {
                                    res.findings.push(Finding::new("C05", "result-kind-per-test", format!("{}: test {i} {}", describe(), ITEMS[items[i]].kind), format!("{got_titled:?}")).tag(tag));
                                }
                            } else if kind == "success" {
                                res.findings.push(Finding::new("C05", "no-success-without-exit-code", format!("{}: test {i} (the command killed by a signal, or a test after it) is not reported as success", describe()), format!("{got_titled:?}")).tag(tag));
                                break;
                            }
                        }
                        for i in 0..ki {
                            let item = &ITEMS[items[i]];
                            if !(item.detached && !*cram) && !got_titled.iter().any(|(t, _)| *t == format!("Test {i}")) {
                                res.findings.push(Finding::new("C05", "result-kind-per-test", format!("{}: a result for test {i}", describe()), format!("{got_titled:?}")).tag(tag));
                            }
                        }
                        if status == Some(0) {
                            res.findings.push(Finding::new("C05", "exit-status", format!("{}: non-zero exit status", describe()), "0".to_string()).tag(tag));
                        }
                    }
                    (Err(e), _) => {
                        // no report: only acceptable as scrut error for a killed script
                        if !(killer.is_some() && status == Some(1)) {
                            res.findings.push(Finding::new("C05", "report-produced", format!("{}: a JSON report", describe()), format!("{e}; exit status {status:?}; stderr: {}", run.stderr_str().lines().last().unwrap_or(""))).tag(tag));
                        }
                    }
                }
            }
        }
        res
    }
    fn size(&self, case: &VerdictCase) -> usize {
        match case {
            VerdictCase::Table { status, .. } => *status as usize,
            VerdictCase::Cli { items, cram } => 100 + items.len() * 100 + items.iter().sum::<usize>() + *cram as usize,
            VerdictCase::Stream { doc, inline, flag, shape, cram } => 50 + (*doc + *inline + *flag + *shape) as usize + *cram as usize,
        }
    }
}
