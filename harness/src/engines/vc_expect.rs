//! C08: expectation lines parse per the documented grammar and print back equivalently.

use scrut::escaping::Escaper;
use scrut::expectation::{Expectation, ExpectationMaker};
use scrut::rules::registry::RuleRegistry;
use serde::{Deserialize, Serialize};

use crate::core::*;
use crate::refmodel::rules::{decode_escaped, glob_match};

pub struct VcExpect;

#[derive(Clone, Debug, Serialize, Deserialize, Hash)]
pub struct ExpectCase {
    pub line: String,
}

thread_local! {
    static DEFAULT: ExpectationMaker = ExpectationMaker::new(RuleRegistry::default());
}

// (the last three: a backslash next to unprintable characters that are no control characters - format, private use, unassigned)
const BASES: [&str; 15] = ["", "foo", "a b", "(x)", "é", "a\tb", "^a$", "[", "a\\tb", "a*", "a\\\\b", "C:\\temp \u{200d}", "a\\b\u{e000}", "\u{378}\\x41", "a\\x0ab"];
const KINDS: [&str; 10] = ["equal", "eq", "no-eol", "escaped", "esc", "glob", "gl", "regex", "re", ""];
const QUANTS: [&str; 4] = ["", "?", "*", "+"];
const ODD: [&str; 12] = [" ()", " (foo)", " (glob )", "(glob)", " (GLOB)", " (re?*)", " (?+)", "  (glob)", " ( glob)", "\u{a0}(glob)", "\t(re?)", "\u{3000}(+)"];

fn suffixes() -> Vec<String> {
    let mut v = vec![String::new()];
    for k in KINDS {
        for q in QUANTS {
            v.push(format!(" ({k}{q})"));
        }
    }
    for o in ODD {
        v.push(o.to_string());
    }
    v
}

fn canonical_kind(k: &str) -> Option<&'static str> {
    Some(match k {
        "equal" | "eq" | "" => "equal",
        "no-eol" => "no-eol",
        "escaped" | "esc" => "escaped",
        "glob" | "gl" => "glob",
        "regex" | "re" => "regex",
        _ => return None,
    })
}

/// reference grammar: (kind, expression, optional, multiline)
pub fn ref_parse(line: &str) -> (&'static str, String, bool, bool) {
    let whole = ("equal", line.to_string(), false, false);
    if !line.ends_with(')') {
        return whole;
    }
    let Some(open) = line.rfind('(') else { return whole };
    // the separator is documented as a space; the implementation accepts any whitespace character, and so does this reference
    let Some(sep) = line[..open].chars().last().filter(|c| c.is_whitespace()) else { return whole };
    let inner = &line[open + 1..line.len() - 1];
    let (k, q) = match inner.chars().last() {
        Some(c) if "?*+".contains(c) => (&inner[..inner.len() - 1], &inner[inner.len() - 1..]),
        _ => (inner, ""),
    };
    if k.is_empty() && q.is_empty() {
        return whole;
    }
    let Some(kind) = canonical_kind(k) else { return whole };
    // an explicitly empty kind is only valid together with a quantifier
    let expr = line[..open - sep.len_utf8()].to_string();
    (kind, expr, q == "?" || q == "*", q == "*" || q == "+")
}

fn split_escaped_glob(expr: &str) -> Option<&str> {
    for s in [" (escaped)", " (esc)"] {
        if let Some(x) = expr.strip_suffix(s) {
            return Some(x);
        }
    }
    None
}

/// independent of scrut's escaper: does the expression contain characters the escaper has to escape?
fn needs_escaping(escaper: &str, expr: &[u8]) -> bool {
    thread_local! { static C: regex::Regex = regex::Regex::new(r"\p{C}").unwrap(); }
    match (escaper, std::str::from_utf8(expr)) {
        ("ascii", _) | (_, Err(_)) => expr.iter().any(|b| !(0x20..0x7f).contains(b)),
        (_, Ok(s)) => C.with(|c| c.is_match(s)),
    }
}

fn content_matches(e: &Expectation, c: &[u8]) -> bool {
    let mut l = c.to_vec();
    if e.matches(&l) {
        return true;
    }
    l.push(b'\n');
    e.matches(&l)
}

impl Engine for VcExpect {
    type Case = ExpectCase;
    fn name(&self) -> &'static str {
        "vc_expect"
    }
    fn properties(&self) -> Vec<&'static str> {
        vec!["C08"]
    }
    fn hang_is_violation(&self) -> Vec<&'static str> {
        vec!["C08"]
    }
    fn chunk(&self) -> usize {
        32
    }
    fn cases(&self, tier: Tier) -> Box<dyn Iterator<Item = ExpectCase> + Send + '_> {
        let suf = suffixes();
        let depth = match tier {
            Tier::Quick => 2,
            Tier::Thorough => 3,
        };
        let mut v = vec![];
        for d in 0..=depth {
            for b in BASES {
                // thorough depth 3 only on a reduced base set to keep it to a few million
                if d == 3 && !["", "foo", "a\tb"].contains(&b) {
                    continue;
                }
                for w in words(suf.len(), d) {
                    if w.iter().any(|i| *i == 0) {
                        continue; // empty suffix only at depth 0 (avoid duplicates)
                    }
                    let mut line = b.to_string();
                    for i in &w {
                        line.push_str(&suf[*i]);
                    }
                    v.push(ExpectCase { line });
                }
            }
        }
        Box::new(v.into_iter())
    }
    fn bound(&self, tier: Tier) -> String {
        format!(
            "all lines base . s1 . .. . sk with base in {BASES:?}, each si in {{' (<kind><quantifier>)' for 10 kinds/aliases (incl. empty) x 4 quantifiers}} + {ODD:?}, k <= {}",
            if tier == Tier::Quick { "2" } else { "2 for all bases, 3 for bases \"\", foo, a<TAB>b" }
        )
    }
    fn rule(&self, _p: &str) -> String {
        "every word of the suffix grammar is one case (distinct strings by construction); non-trivial = the line carries at least one parenthesised suffix; outcome = (parse result class, reference kind, quantifier, round-trip class)".into()
    }
    fn assumptions(&self, _p: &str) -> Vec<String> {
        vec![
            "the documented separator between expression and modifier is a space; like the implementation the reference accepts any single whitespace character (TAB, U+00A0, U+3000 are in the alphabet)".into(),
            "round trip compares line contents modulo one final newline over a probe set derived from the expression".into(),
        ]
    }

    fn check(&self, case: &ExpectCase) -> CaseResult {
        let mut res = CaseResult::default();
        let line = &case.line;
        let (rk, rexpr, ropt, rmulti) = ref_parse(line);
        let parsed = guard(|| DEFAULT.with(|m| m.parse(line)).map_err(|e| format!("{e:#}")));
        if line.contains('(') {
            res.nontrivial.push(("C08", hash64(line)));
        }
        let e = match parsed {
            Err(p) => {
                res.findings.push(Finding::new("C08", "no-crash", "Ok or Err", format!("panic: {p} for `{line}`")));
                return res;
            }
            Ok(Err(err)) => {
                // when may it fail?
                let allowed = match rk {
                    "regex" => regex::bytes::Regex::new(&format!("^(?:{rexpr})$")).is_err(),
                    "escaped" => decode_escaped(&rexpr).is_none() || rexpr.ends_with(" (no-eol)"),
                    "glob" => match split_escaped_glob(&rexpr) {
                        Some(inner) => decode_escaped(inner).map(|b| String::from_utf8(b).is_err()).unwrap_or(true),
                        None => false,
                    },
                    _ => false,
                };
                if !allowed {
                    let mut f = Finding::new("C08", "parse-fails-only-on-malformed-regex-or-escaped", format!("`{line}` parses as {rk} `{rexpr}`"), format!("Err({err})"));
                    if line.ends_with(" ()") {
                        f = f.tag("ends-with-empty-parens");
                    }
                    res.findings.push(f);
                }
                res.outcome.push(("C08", hash64(&("err", rk, ropt, rmulti))));
                return res;
            }
            Ok(Ok(e)) => e,
        };
        let (k, expr, opt, multi) = e.unmake();
        if k != rk || opt != ropt || multi != rmulti {
            res.findings.push(Finding::new(
                "C08",
                "grammar-kind-and-quantifier",
                format!("`{line}` is kind={rk} optional={ropt} multiline={rmulti} expression=`{rexpr}`"),
                format!("kind={k} optional={opt} multiline={multi} expression=`{}`", String::from_utf8_lossy(&expr)),
            ));
            return res;
        }
        // expression verbatim
        match rk {
            "equal" | "no-eol" => {
                if expr != rexpr.as_bytes() {
                    res.findings.push(Finding::new("C08", "expression-verbatim", format!("`{rexpr}`"), format!("`{}`", String::from_utf8_lossy(&expr))));
                }
            }
            "escaped" => {
                if let Some(d) = decode_escaped(&rexpr) {
                    if expr != d {
                        let mut f = Finding::new("C08", "expression-verbatim", format!("`{line}`: decoded {d:?}"), format!("{expr:?}"));
                        if rexpr.ends_with(" (no-eol)") {
                            f = f.tag("escaped-expression-ends-with-no-eol-marker");
                        }
                        res.findings.push(f);
                    }
                }
            }
            "glob" => {
                if split_escaped_glob(&rexpr).is_none() {
                    let pat: Vec<char> = rexpr.chars().collect();
                    for probe in [rexpr.clone(), format!("{rexpr}x"), "".to_string(), "foo".to_string(), "a b".to_string(), "a".to_string()] {
                        let want = glob_match(&pat, &probe.chars().collect::<Vec<_>>());
                        let got = e.matches(format!("{probe}\n").as_bytes());
                        if want != got {
                            res.findings.push(Finding::new("C08", "expression-verbatim", format!("glob `{rexpr}` matches `{probe}` = {want}"), format!("{got}")));
                            break;
                        }
                    }
                }
            }
            _ => {}
        }
        // round trip under both escapers
        let mut rt_class = vec![];
        for (ename, esc) in [("ascii", Escaper::Ascii), ("unicode", Escaper::Unicode)] {
            let rendered = match guard(|| e.to_expression_string(&esc)) {
                Ok(r) => r,
                Err(p) => {
                    res.findings.push(Finding::new("C08", "no-crash", "rendering", format!("panic: {p}")));
                    continue;
                }
            };
            let r = match guard(|| DEFAULT.with(|m| m.parse(&rendered)).map_err(|e| format!("{e:#}"))) {
                Ok(Ok(r)) => r,
                Ok(Err(err)) => {
                    res.findings.push(Finding::new("C08", "roundtrip-parses", format!("`{line}` rendered ({ename}) as `{rendered}` parses"), format!("Err({err})")).tag(&format!("kind-{rk}")));
                    continue;
                }
                Err(p) => {
                    res.findings.push(Finding::new("C08", "no-crash", "re-parse", format!("panic: {p}")));
                    continue;
                }
            };
            if (r.optional, r.multiline) != (e.optional, e.multiline) {
                res.findings.push(Finding::new(
                    "C08",
                    "roundtrip-quantifier",
                    format!("`{line}` -> `{rendered}` keeps optional={} multiline={}", e.optional, e.multiline),
                    format!("optional={} multiline={}", r.optional, r.multiline),
                ));
                continue;
            }
            // probe contents
            let mut probes: Vec<Vec<u8>> = vec![rexpr.as_bytes().to_vec(), expr.clone(), line.as_bytes().to_vec(), rendered.as_bytes().to_vec(), vec![]];
            if let Some(d) = decode_escaped(&rexpr) {
                probes.push(d);
            }
            let mut shorter = rexpr.clone();
            shorter.pop();
            probes.push(shorter.into_bytes());
            probes.push(format!("{rexpr}x").into_bytes());
            for b in BASES {
                probes.push(b.as_bytes().to_vec());
            }
            probes.retain(|p| !p.contains(&b'\n'));
            for p in probes {
                let (a, b) = (content_matches(&e, &p), content_matches(&r, &p));
                if a != b {
                    res.findings.push(
                        Finding::new(
                            "C08",
                            "roundtrip-same-contents",
                            format!("`{line}` and its {ename} rendering `{rendered}` agree on content {:?} (original matches = {a})", String::from_utf8_lossy(&p)),
                            format!("re-parsed matches = {b}"),
                        )
                        .tag(&format!("kind-{rk}"))
                        .tag(if needs_escaping(ename, &expr) { "expression-needs-escaping" } else { "expression-printable" })
                        .tag(if rk == "glob" && split_escaped_glob(&String::from_utf8_lossy(&expr)).is_some() { "resolved-glob-pattern-ends-with-escaped-marker" } else { "no-escaped-marker-in-pattern" })
                        .tag(if rexpr.ends_with(" (no-eol)") { "expression-ends-with-no-eol-marker" } else { "expression-plain-ending" }),
                    );
                    break;
                }
            }
            rt_class.push(rendered == *line);
        }
        res.outcome.push(("C08", hash64(&("ok", rk, ropt, rmulti, rt_class))));
        res
    }
    fn size(&self, case: &ExpectCase) -> usize {
        case.line.len()
    }
}
