//! C11: escaping is lossless and produces printable text.

use scrut::escaping::Escaper;
use scrut::expectation::ExpectationMaker;
use scrut::rules::registry::RuleRegistry;
use serde::{Deserialize, Serialize};

use crate::core::*;

pub struct VcEscape;

#[derive(Clone, Debug, Serialize, Deserialize, Hash)]
pub enum EscCase {
    /// one line (without final newline)
    Line { bytes: Vec<u8> },
    /// all two-byte lines with this first byte
    PairBlock { first: u8 },
    /// 256 scalars starting here, each alone and preceded by a backslash
    ScalarBlock { start: u32 },
}

thread_local! {
    static DEFAULT: ExpectationMaker = ExpectationMaker::new(RuleRegistry::default());
    static NONPRINT: regex::Regex = regex::Regex::new(r"[\p{Cc}\p{Cf}\p{Cn}\p{Co}]").unwrap();
}

const ALPHA: [&[u8]; 15] = [b"\\", b"t", b"x", b"0", b"1", b"\t", b"\x1b", b"\0", b"\x7f", b"\x80", "é".as_bytes(), "\u{200b}".as_bytes(), b" ", b"a", b"("];

fn check_line(l: &[u8], parse_plain: bool, res: &mut CaseResult) {
    // a line's content never contains LF (it is the terminator, covered by the `nl` variant)
    if l.contains(&b'\n') {
        return;
    }
    for (ename, esc) in [("ascii", Escaper::Ascii), ("unicode", Escaper::Unicode)] {
        for nl in [false, true] {
            let mut input = l.to_vec();
            if nl {
                input.push(b'\n');
            }
            let t = match guard(|| esc.escaped_expectation(&input)) {
                Ok(t) => t,
                Err(p) => {
                    res.findings.push(Finding::new("C11", "no-crash", "text", format!("panic {p} on {l:?}")));
                    return;
                }
            };
            // (1) printable
            let bad = if ename == "ascii" { t.chars().find(|c| !(' '..='~').contains(c)) } else { NONPRINT.with(|r| r.find(&t).map(|m| m.as_str().chars().next().unwrap())) };
            if let Some(c) = bad {
                res.findings.push(Finding::new("C11", "printable", format!("{ename} rendering of {l:?} has only printable characters"), format!("contains U+{:04X}: {t:?}", c as u32)));
            }
            // (2) lossless
            let lossy = String::from_utf8_lossy(l).to_string();
            let plain = t == lossy;
            if plain {
                if std::str::from_utf8(l).is_err() {
                    res.findings.push(Finding::new("C11", "lossless", format!("invalid UTF-8 {l:?} is escaped"), format!("written as-is (lossy): {t:?}")));
                } else if parse_plain {
                    match guard(|| DEFAULT.with(|m| m.parse(&format!("{t} (equal)"))).map_err(|e| format!("{e:#}"))) {
                        Ok(Ok(e)) => {
                            let (k, ex, _, _) = e.unmake();
                            let mut with_nl = l.to_vec();
                            with_nl.push(b'\n');
                            if k != "equal" || ex != l || !e.matches(&with_nl) {
                                res.findings.push(Finding::new("C11", "lossless", format!("`{t} (equal)` is the equal expectation for {l:?}"), format!("kind={k} expression={ex:?}")));
                            }
                        }
                        Ok(Err(err)) => res.findings.push(Finding::new("C11", "lossless", format!("`{t} (equal)` parses"), format!("Err({err})"))),
                        Err(p) => res.findings.push(Finding::new("C11", "no-crash", "parse", format!("panic {p}"))),
                    }
                }
            } else {
                if !t.ends_with(" (escaped)") {
                    res.findings.push(Finding::new("C11", "escaped-marker", format!("changed rendering of {l:?} is marked (escaped)"), format!("{t:?}")));
                    continue;
                }
                match guard(|| DEFAULT.with(|m| m.parse(&t)).map_err(|e| format!("{e:#}"))) {
                    Ok(Ok(e)) => {
                        let (k, ex, _, _) = e.unmake();
                        let mut with_nl = l.to_vec();
                        with_nl.push(b'\n');
                        if k != "escaped" || ex != l || !e.matches(&with_nl) || !e.matches(l) {
                            res.findings.push(Finding::new("C11", "lossless", format!("{ename}: `{t}` read back decodes to the original line {l:?}"), format!("kind={k} decodes to {ex:?}")));
                        }
                    }
                    Ok(Err(err)) => res.findings.push(Finding::new("C11", "lossless", format!("{ename}: `{t}` (from {l:?}) parses"), format!("Err({err})"))),
                    Err(p) => res.findings.push(Finding::new("C11", "no-crash", "parse", format!("panic {p}"))),
                }
            }
            // has_unprintable <=> escaped_printable changed something
            let hp = esc.has_unprintable(l);
            let changed = esc.escaped_printable(l) != lossy;
            if hp != changed {
                res.findings.push(Finding::new("C11", "has-unprintable-consistent", format!("{ename}: has_unprintable({l:?}) == rendering changed ({changed})"), format!("{hp}")));
            }
            res.outcome.push(("C11", hash64(&(ename, plain, t.len().min(12)))));
        }
    }
}

impl Engine for VcEscape {
    type Case = EscCase;
    fn name(&self) -> &'static str {
        "vc_escape"
    }
    fn properties(&self) -> Vec<&'static str> {
        vec!["C11"]
    }
    fn chunk(&self) -> usize {
        8
    }
    fn cases(&self, tier: Tier) -> Box<dyn Iterator<Item = EscCase> + Send + '_> {
        let n = if tier == Tier::Quick { 4 } else { 5 };
        let singles = (0..=255u8).map(|b| EscCase::Line { bytes: vec![b] });
        let pairs = (0..=255u8).map(|b| EscCase::PairBlock { first: b });
        let strings = words_upto(ALPHA.len(), n).map(|w| EscCase::Line { bytes: w.iter().flat_map(|i| ALPHA[*i].to_vec()).collect() });
        let scalars: Box<dyn Iterator<Item = EscCase> + Send> = if tier == Tier::Quick {
            // quick: BMP blocks up to U+3100 and the last block of each plane
            Box::new((0..0x110000u32).step_by(256).filter(|s| *s < 0x3100 || s % 0x10000 == 0xff00 || (0xd700..0xe100).contains(s) || (0xfe00..0x10000).contains(s) || (0xe0000..0xe0200).contains(s)).map(|s| EscCase::ScalarBlock { start: s }))
        } else {
            Box::new((0..0x110000u32).step_by(256).map(|s| EscCase::ScalarBlock { start: s }))
        };
        Box::new(singles.chain(pairs).chain(strings).chain(scalars))
    }
    fn bound(&self, tier: Tier) -> String {
        format!(
            "both escapers x (with/without final LF): all 256 one-byte lines; all 65536 two-byte lines; all strings <= {} over the 15-symbol alphabet {{\\,t,x,0,1,TAB,ESC,NUL,DEL,0x80,é,U+200B,space,a,(}}; {} scalars alone and preceded by a backslash",
            if tier == Tier::Quick { 4 } else { 5 },
            if tier == Tier::Quick { "BMP up to U+30FF, surrogate/PUA borders, specials, plane-14 tags and the last block of every plane of" } else { "all 1,114,112 (minus surrogates)" }
        )
    }
    fn rule(&self, _p: &str) -> String {
        "lines are distinct by construction within a family (blocks of 256 for pairs/scalars are one case each); non-trivial = the line needs escaping under at least one escaper or contains a backslash; outcome = (escaper, written as-is or escaped, rendered length class)".into()
    }
    fn assumptions(&self, _p: &str) -> Vec<String> {
        vec![
            "printable in unicode mode is judged with the regex crate's Unicode tables (Cc, Cf, Cn, Co), independent of unicode_categories used by scrut; a disagreement between table versions would show as a `printable` finding".into(),
            "plain (unescaped) renderings are read back as `<text> (equal)`; for the scalar sweep the read-back of plain renderings is skipped (identity), escaped renderings are always read back".into(),
        ]
    }
    fn check(&self, case: &EscCase) -> CaseResult {
        let mut res = CaseResult::default();
        match case {
            EscCase::Line { bytes } => {
                check_line(bytes, true, &mut res);
                if bytes.contains(&b'\\') || bytes.iter().any(|b| !(0x20..0x7f).contains(b)) {
                    res.nontrivial.push(("C11", hash64(bytes)));
                }
            }
            EscCase::PairBlock { first } => {
                for b in 0..=255u8 {
                    check_line(&[*first, b], true, &mut res);
                    if res.findings.len() > 8 {
                        break;
                    }
                }
                res.nontrivial.push(("C11", hash64(&("pair", first))));
            }
            EscCase::ScalarBlock { start } => {
                let mut any = false;
                for cp in *start..*start + 256 {
                    if let Some(c) = char::from_u32(cp) {
                        any = true;
                        let s = c.to_string();
                        check_line(s.as_bytes(), false, &mut res);
                        let bs = format!("\\{c}");
                        check_line(bs.as_bytes(), false, &mut res);
                        if res.findings.len() > 8 {
                            break;
                        }
                    }
                }
                if any {
                    res.nontrivial.push(("C11", hash64(&("scalar", start))));
                }
                res.counters.push(("scalars", 256));
            }
        }
        res.findings.truncate(4);
        res
    }
    fn size(&self, case: &EscCase) -> usize {
        match case {
            EscCase::Line { bytes } => bytes.len(),
            EscCase::PairBlock { .. } => 100,
            EscCase::ScalarBlock { .. } => 200,
        }
    }
}
