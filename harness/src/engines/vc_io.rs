//! C13: commands run verbatim; output bytes and exit codes captured exactly, per test,
//! through the real executors with the real bash.

use scrut::config::{DocumentConfig, OutputStreamControl, TestCaseConfig};
use scrut::newline::replace_crlf;
use scrut::output::ExitStatus;
use scrut::testcase::TestCase;
use serde::{Deserialize, Serialize};

use crate::core::*;
use crate::execs::*;

pub struct VcIo;

pub fn payloads() -> Vec<(&'static str, Vec<u8>)> {
    vec![
        ("empty", b"".to_vec()),
        ("x-no-eol", b"x".to_vec()),
        ("x", b"x\n".to_vec()),
        ("newline", b"\n".to_vec()),
        ("crlf-lines", b"a\r\nb\r\n".to_vec()),
        ("crlf", b"\r\n".to_vec()),
        ("cr-crlf", b"\r\r\n".to_vec()),
        ("cr-only", b"a\rb\n".to_vec()),
        ("nul", b"a\0b\n".to_vec()),
        ("ff", b"\xff\xfe\n".to_vec()),
        ("ansi", b"\x1b[1mx\x1b[0m\n".to_vec()),
        ("divider-like", b"~~~~~~~~EXECDIVIDER::s::0::0\n".to_vec()),
        ("divider-prefix", b"~~~~~~~~EXECDIVIDER::\n".to_vec()),
        ("two-lines-no-eol", b"l1\nl2".to_vec()),
        ("trailing-blank-lines", b"x\n\n\n".to_vec()),
        ("spaces", b"  x  \n".to_vec()),
        ("utf8", "h\u{e9}llo \u{65e5}\u{672c}\n".as_bytes().to_vec()),
        // an unterminated last line that is not valid UTF-8 (in script mode the divider lands on the same line)
        ("ff-no-eol", b"abc\xff".to_vec()),
        ("invalid-utf8-run-no-eol", (0x80u8..0xa8).collect()),
        ("utf8-no-eol", "l1\n\u{65e5}\u{672c}".as_bytes().to_vec()),
        // unterminated text that holds the (unsalted) beginning of a divider line
        ("divider-prefix-no-eol", b"see ~~~~~~~~EXECDIVIDER::x".to_vec()),
        ("ansi-no-eol", b"\x1b[1mbold\x1b[0m".to_vec()),
        // more escape sequences: cursor movement with a private parameter, a window title (OSC) ended by BEL and by ESC \,
        // and the beginning of an OSC that never ends, followed by more lines; text with TAB and BEL next to a colour
        ("ansi-csi-private", b"a\x1b[?25lb\x1b[2Kc\n".to_vec()),
        ("ansi-osc", b"\x1b]0;title\x07x\x1b]8;;http://e\x1b\\y\n".to_vec()),
        ("ansi-osc-unterminated", b"a\n\x1b]b\nc\nd\n".to_vec()),
        ("ansi-next-to-controls", b"t\tb\x07\x1b[31mred\x1b[0m\0\xff\n".to_vec()),
        // the two output transformations together: an escape sequence between a CR and its LF (the CR is not part of a
        // CR LF pair in what the command wrote and has to stay), and CR LF pairs right behind / before escape sequences
        ("ansi-between-cr-and-lf", b"a\r\x1b[K\nb\n".to_vec()),
        ("ansi-around-crlf", b"\x1b[1ma\x1b[0m\r\n\x1b[2Kb\r\n".to_vec()),
    ]
}

/// texts that must reach the shell verbatim (printed with printf %s)
pub const VERBATIM: [&str; 12] = ["{name}", "{state_directory}", "{shell_expression}", "{excluded_variables}", "{persist_state}", "$HOME", "a\\b", "it''s", "\"q\"", "{", "}}", "{name}{name}"];

/// shell expressions of awkward shapes (trailing line continuation, comment, multi-line quotes, here-doc, compound commands)
/// and expressions that change what scrut's own scaffolding around the expression depends on (IFS, PATH, functions named
/// like the commands it calls, shell tracing): (expression, expected stdout, expected stderr, expected exit code, tag)
pub fn raw_expressions() -> Vec<(&'static str, &'static str, &'static str, i32, &'static str)> {
    vec![
        ("echo foo \\", "foo\n", "", 0, ""),
        ("printf '%s\\n' one \\\n  two \\", "one\ntwo\n", "", 0, ""),
        ("echo a # trailing comment", "a\n", "", 0, ""),
        ("echo 'multi\nline quote'", "multi\nline quote\n", "", 0, ""),
        ("cat <<EOF\nheredoc $((1+1))\nEOF", "heredoc 2\n", "", 0, ""),
        ("if true; then\n  echo yes\nfi", "yes\n", "", 0, ""),
        ("echo $((2+3)); false", "5\n", "", 1, ""),
        ("f() { echo in-f; }; f", "in-f\n", "", 0, ""),
        ("echo x |\n  tr x y", "y\n", "", 0, ""),
        ("echo 'tab\there'", "tab\there\n", "", 0, ""),
        ("true &&\n  echo chained", "chained\n", "", 0, ""),
        ("echo no-newline-at-end; (exit 9)", "no-newline-at-end\n", "", 9, ""),
        // the exit code is not re-split with the test's IFS
        ("IFS=0; (exit 10)", "", "", 10, ""),
        ("IFS=5; (exit 152)", "", "", 152, ""),
        // nothing of scrut's own work around the expression shows up in the test's output
        ("PATH=/nonexistent; echo hi", "hi\n", "", 0, ""),
        ("mkdir() { echo \"mkdir called: $*\"; }; grep() { echo mock grep; }; echo hi", "hi\n", "", 0, ""),
        ("echo() { printf 'E:%s\\n' \"$*\"; }; echo hi", "E:hi\n", "", 0, ""),
        ("set -x; echo hi", "hi\n", "+ echo hi\n", 0, "shell-tracing"),
        // keyword mode and a function named like the command scrut sets the environment with
        ("export() { echo my-export; }; echo hi", "hi\n", "", 0, ""),
        ("set -k; echo hi", "hi\n", "", 0, ""),
        // leaves a working directory behind that does not exist any more: restoring it must not talk on the next test's stderr
        ("mkdir gone && cd gone && rmdir ../gone && echo left", "left\n", "", 0, ""),
    ]
}

#[derive(Clone, Debug, Serialize, Deserialize, Hash)]
pub struct Step {
    pub payload: usize,
    /// 0 stdout, 1 stderr, 2 stdout then stderr, 3 stderr then stdout
    pub stream: u8,
    pub code: i32,
}

#[derive(Clone, Debug, Serialize, Deserialize, Hash)]
pub enum IoCase {
    Steps { steps: Vec<Step>, output_stream: u8, keep_crlf: bool, strip_ansi: bool, exec: Exec },
    Verbatim { text: usize, exec: Exec },
    /// `exit c` (not a subshell) in the per-process executor
    PlainExit { code: i32 },
    /// an awkwardly shaped expression, preceded by `(exit 4)` and followed by `echo next` (attribution of output and exit codes)
    Raw { idx: usize, exec: Exec },
    /// script mode: the last of `n` test cases prints a line imitating scrut's divider for itself and then exits with 5
    FakeDivider { n: usize },
    /// big payload on both streams at once (bytes per stream)
    Big { bytes: usize, exec: Exec },
    /// replace_crlf on all byte strings up to length n over {CR, LF, a}, as one case per string
    Crlf { word: Vec<u8> },
    /// replace_crlf on `pairs` CR LF pairs, run in a child process (stack!)
    CrlfSize { pairs: usize },
}

fn stream_cfg(v: u8) -> Option<OutputStreamControl> {
    match v {
        0 => Some(OutputStreamControl::Stdout),
        1 => Some(OutputStreamControl::Stderr),
        _ => Some(OutputStreamControl::Combined),
    }
}

fn strip_ansi_ref(b: &[u8]) -> Vec<u8> {
    // reference written from ECMA-48: CSI = ESC [ parameters (0x30-0x3f)* intermediates (0x20-0x2f)* final (0x40-0x7e);
    // OSC = ESC ] text terminated by BEL or ESC \; anything that does not complete stays as it is
    let mut out = vec![];
    let mut i = 0;
    while i < b.len() {
        if b[i] == 0x1b && b.get(i + 1) == Some(&b'[') {
            let mut j = i + 2;
            while j < b.len() && (0x30..=0x3f).contains(&b[j]) {
                j += 1;
            }
            while j < b.len() && (0x20..=0x2f).contains(&b[j]) {
                j += 1;
            }
            if j < b.len() && (0x40..=0x7e).contains(&b[j]) {
                i = j + 1;
                continue;
            }
        } else if b[i] == 0x1b && b.get(i + 1) == Some(&b']') {
            let mut j = i + 2;
            while j < b.len() && b[j] != 0x07 && b[j] != 0x1b {
                j += 1;
            }
            if j < b.len() && b[j] == 0x07 {
                i = j + 1;
                continue;
            }
            if j + 1 < b.len() && b[j] == 0x1b && b[j + 1] == b'\\' {
                i = j + 2;
                continue;
            }
        }
        out.push(b[i]);
        i += 1;
    }
    out
}

fn crlf_ref(b: &[u8]) -> Vec<u8> {
    let mut out = Vec::with_capacity(b.len());
    let mut i = 0;
    while i < b.len() {
        if b[i] == b'\r' && b.get(i + 1) == Some(&b'\n') {
            i += 1; // drop the CR, keep the LF
            continue;
        }
        out.push(b[i]);
        i += 1;
    }
    out
}

fn step_command(s: &Step) -> String {
    let p = &payloads()[s.payload].1;
    let oct = printf_octal(p);
    let body = match s.stream {
        0 => format!("printf '{oct}'"),
        1 => format!("printf '{oct}' >&2"),
        2 => format!("printf '{oct}'; printf '{oct}' >&2"),
        _ => format!("printf '{oct}' >&2; printf '{oct}'"),
    };
    format!("{body}; (exit {})", s.code)
}

fn expected_streams(s: &Step, output_stream: u8, keep_crlf: bool, strip_ansi: bool) -> (Vec<u8>, Vec<u8>) {
    let p = payloads()[s.payload].1.clone();
    let (mut out, mut err) = match s.stream {
        0 => (p.clone(), vec![]),
        1 => (vec![], p.clone()),
        _ => (p.clone(), p.clone()),
    };
    if output_stream == 2 {
        // merged in write order
        out = match s.stream {
            0 | 1 => p.clone(),
            _ => [p.clone(), p.clone()].concat(),
        };
        err = vec![];
    }
    let tr = |b: Vec<u8>| {
        let b = if keep_crlf { b } else { crlf_ref(&b) };
        if strip_ansi {
            strip_ansi_ref(&b)
        } else {
            b
        }
    };
    (tr(out), tr(err))
}

impl Engine for VcIo {
    type Case = IoCase;
    fn name(&self) -> &'static str {
        "vc_io"
    }
    fn properties(&self) -> Vec<&'static str> {
        vec!["C13"]
    }
    fn chunk(&self) -> usize {
        4
    }
    fn case_timeout(&self) -> std::time::Duration {
        std::time::Duration::from_secs(120)
    }
    fn cases(&self, tier: Tier) -> Box<dyn Iterator<Item = IoCase> + Send + '_> {
        let np = payloads().len();
        let mut v = vec![];
        let codes: Vec<i32> = if tier == Tier::Quick { vec![0, 3, 255] } else { vec![0, 1, 2, 3, 81, 127, 255] };
        for exec in [Exec::Stateful, Exec::Script] {
            for t in 0..VERBATIM.len() {
                v.push(IoCase::Verbatim { text: t, exec });
            }
            for payload in 0..np {
                for stream in 0..4u8 {
                    for code in &codes {
                        for output_stream in 0..3u8 {
                            for keep_crlf in [false, true] {
                                for strip_ansi in [false, true] {
                                    if strip_ansi && exec == Exec::Script {
                                        continue; // no per-test configuration in script mode
                                    }
                                    // settings only matter for payloads they can transform; keep the full product for those
                                    let name = payloads()[payload].0;
                                    let crlfish = name.contains("cr");
                                    let ansi = name.starts_with("ansi");
                                    if (keep_crlf && !crlfish) || (strip_ansi && !ansi && !crlfish) {
                                        continue;
                                    }
                                    v.push(IoCase::Steps { steps: vec![Step { payload, stream, code: *code }], output_stream, keep_crlf, strip_ansi, exec });
                                }
                            }
                        }
                    }
                }
            }
            // pairs / triples on a reduced alphabet: per-test attribution
            let reduced: Vec<usize> = vec![0, 1, 2, 11, 13];
            let depth = if tier == Tier::Quick { 2 } else { 3 };
            let single: Vec<Step> = reduced.iter().flat_map(|p| (0..3u8).flat_map(move |stream| [0, 4].into_iter().map(move |code| Step { payload: *p, stream, code }))).collect();
            for w in words(single.len(), 2) {
                for output_stream in [0u8, 2] {
                    v.push(IoCase::Steps { steps: w.iter().map(|i| single[*i].clone()).collect(), output_stream, keep_crlf: false, strip_ansi: false, exec });
                }
            }
            if depth == 3 {
                let small: Vec<Step> = [1usize, 2, 11].iter().flat_map(|p| [0u8, 1].into_iter().map(move |stream| Step { payload: *p, stream, code: if stream == 0 { 0 } else { 7 } })).collect();
                for w in words(small.len(), 3) {
                    v.push(IoCase::Steps { steps: w.iter().map(|i| small[*i].clone()).collect(), output_stream: 0, keep_crlf: false, strip_ansi: false, exec });
                }
            }
            for idx in 0..raw_expressions().len() {
                v.push(IoCase::Raw { idx, exec });
            }
            v.push(IoCase::Big { bytes: 64 * 1024, exec });
            v.push(IoCase::Big { bytes: 2 * 1024 * 1024, exec });
        }
        for code in [0, 1, 2, 80 + 1, 255] {
            v.push(IoCase::PlainExit { code });
        }
        for n in 1..=3 {
            v.push(IoCase::FakeDivider { n });
        }
        let n = if tier == Tier::Quick { 7 } else { 9 };
        for w in words_upto(3, n) {
            v.push(IoCase::Crlf { word: w.iter().map(|i| [b'\r', b'\n', b'a'][*i]).collect() });
        }
        for pairs in [1_000usize, 10_000, 100_000, 1_000_000] {
            v.push(IoCase::CrlfSize { pairs });
        }
        Box::new(v.into_iter())
    }
    fn bound(&self, tier: Tier) -> String {
        format!(
            "both executors (per-process StatefulExecutor+BashRunner, single-script BashScriptExecutor) with /bin/bash: every payload of {} x stream {{out, err, out+err, err+out}} x exit codes {} x output_stream {{stdout,stderr,combined}} x keep_crlf x strip_ansi (settings varied where they can transform the payload); all pairs{} of test cases over a reduced alphabet (per-test attribution); {} texts that must reach the shell verbatim; 12 awkwardly shaped expressions (trailing line continuation, comment, multi-line quote, here-doc, compound commands) between two other test cases; plain `exit c`; 64 KiB and 2 MiB on both streams at once; replace_crlf on all byte strings <= {} over {{CR, LF, a}} and on 10^3..10^6 CR LF pairs in a child process",
            payloads().len(),
            if tier == Tier::Quick { "{0,3,255}" } else { "{0,1,2,3,81,127,255}" },
            if tier == Tier::Quick { "" } else { " and a triple family" },
            VERBATIM.len(),
            if tier == Tier::Quick { 7 } else { 9 }
        )
    }
    fn rule(&self, _p: &str) -> String {
        "cases are distinct tuples by construction; non-trivial = a payload other than plain `x\\n` on stdout with exit 0 under default settings; outcome = (family, executor, Ok/Err class, whether any transformation applied)".into()
    }
    fn assumptions(&self, _p: &str) -> Vec<String> {
        vec![
            "results hold for /bin/bash of this image (L4)".into(),
            "exit codes are set with a subshell `(exit c)` so that the single-script executor is not terminated (documented behaviour of `exit`); plain `exit c` is covered for the per-process executor".into(),
            "output that imitates scrut's divider lines (without knowing the salt of the run) is output like any other".into(),
            "sizes are covered at decades, not for all n (L3)".into(),
        ]
    }

    fn check(&self, case: &IoCase) -> CaseResult {
        let mut res = CaseResult::default();
        let key = hash64(case);
        let fail = |res: &mut CaseResult, clause: &str, exp: String, obs: String, tags: &[&str]| {
            if res.findings.len() < 2 {
                let mut f = Finding::new("C13", clause, exp, obs);
                for t in tags {
                    f = f.tag(t);
                }
                res.findings.push(f);
            }
        };
        match case {
            IoCase::Steps { steps, output_stream, keep_crlf, strip_ansi, exec } => {
                let scratch = Scratch::new();
                let mut cfg = if *exec == Exec::Script { TestCaseConfig::default_cram() } else { TestCaseConfig::default_markdown() };
                cfg.output_stream = stream_cfg(*output_stream);
                cfg.keep_crlf = if *keep_crlf { Some(true) } else if *exec == Exec::Script { Some(false) } else { None };
                if *strip_ansi {
                    cfg.strip_ansi_escaping = Some(true);
                }
                let tcs: Vec<TestCase> = steps.iter().map(|s| TestCase { title: "t".into(), shell_expression: step_command(s), expectations: vec![], exit_code: None, line_number: 1, config: cfg.clone() }).collect();
                let r = guard(|| execute(*exec, &tcs, DocumentConfig::default_markdown(), &scratch));
                // (no exemption for output that imitates a divider line: the salt is there so that output cannot do that)
                let divider_like = false;
                let nontrivial = steps.len() > 1 || steps.iter().any(|s| s.payload != 2 || s.stream != 0 || s.code != 0) || *output_stream != 0 || *keep_crlf || *strip_ansi;
                if nontrivial {
                    res.nontrivial.push(("C13", key));
                }
                match r {
                    Err(p) => fail(&mut res, "no-crash", "outputs".into(), format!("panic: {p}"), &[]),
                    Ok(Err(e)) => {
                        res.outcome.push(("C13", hash64(&("steps", exec, "err"))));
                        if !(divider_like && *exec == Exec::Script) {
                            fail(&mut res, "execution-succeeds", format!("outputs for {:?}", tcs.iter().map(|t| t.shell_expression.clone()).collect::<Vec<_>>()), format!("Err({e})"), &[]);
                        }
                    }
                    Ok(Ok(outs)) => {
                        res.outcome.push(("C13", hash64(&("steps", exec, "ok", *keep_crlf, *strip_ansi, *output_stream))));
                        if outs.len() != steps.len() {
                            fail(&mut res, "one-output-per-test", format!("{}", steps.len()), format!("{}", outs.len()), &[]);
                            return res;
                        }
                        for (i, (s, o)) in steps.iter().zip(outs.iter()).enumerate() {
                            let (eo, ee) = expected_streams(s, *output_stream, *keep_crlf, *strip_ansi);
                            let go: Vec<u8> = (&o.stdout).into();
                            let ge: Vec<u8> = (&o.stderr).into();
                            let mut tags: Vec<&str> = if divider_like && *exec == Exec::Script { vec!["divider-like-payload-in-script-mode"] } else { vec![] };
                            // strip_ansi_escaping set on output that (after CRLF translation) still holds C0 controls other than LF / ESC sequences, or invalid UTF-8
                            if *strip_ansi {
                                let raw = payloads()[s.payload].1.clone();
                                let seen = if *keep_crlf { raw } else { crlf_ref(&raw) };
                                let stripped = strip_ansi_ref(&seen);
                                if stripped.iter().any(|b| *b < 0x20 && *b != b'\n') || std::str::from_utf8(&stripped).is_err() {
                                    tags.push("strip-ansi-on-output-with-other-control-bytes");
                                }
                            }
                            if o.exit_code != ExitStatus::Code(s.code) {
                                fail(&mut res, "exit-code-exact", format!("test {i}: {}", s.code), format!("{:?}", o.exit_code), &tags);
                            }
                            if go != eo {
                                fail(&mut res, "stdout-exact", format!("test {i} `{}`: {:?}", tcs[i].shell_expression, String::from_utf8_lossy(&eo)), format!("{:?}", String::from_utf8_lossy(&go)), &tags);
                            }
                            if ge != ee {
                                fail(&mut res, "stderr-exact", format!("test {i} `{}`: {:?}", tcs[i].shell_expression, String::from_utf8_lossy(&ee)), format!("{:?}", String::from_utf8_lossy(&ge)), &tags);
                            }
                        }
                    }
                }
            }
            IoCase::Verbatim { text, exec } => {
                let scratch = Scratch::new();
                let t = VERBATIM[*text];
                let cfg = if *exec == Exec::Script { TestCaseConfig::default_cram() } else { TestCaseConfig::default_markdown() };
                // single quotes are doubled in the alphabet where needed; use a here-doc so that no quoting rule interferes
                let expr = format!("cat <<'VERIF_EOF'\n{t}\nVERIF_EOF");
                let tc = TestCase { title: "t".into(), shell_expression: expr.clone(), expectations: vec![], exit_code: None, line_number: 1, config: cfg };
                res.nontrivial.push(("C13", key));
                match guard(|| execute(*exec, &[tc], DocumentConfig::default_markdown(), &scratch)) {
                    Ok(Ok(outs)) if outs.len() == 1 => {
                        let got: Vec<u8> = (&outs[0].stdout).into();
                        let want = format!("{t}\n").into_bytes();
                        res.outcome.push(("C13", hash64(&("verbatim", exec, got == want))));
                        if got != want {
                            fail(&mut res, "expression-reaches-shell-verbatim", format!("`{expr}` prints {:?}", t), format!("{:?}", String::from_utf8_lossy(&got)), &[]);
                        }
                    }
                    Ok(Ok(outs)) => fail(&mut res, "one-output-per-test", "1".into(), format!("{}", outs.len()), &[]),
                    Ok(Err(e)) => fail(&mut res, "execution-succeeds", format!("`{expr}` runs"), format!("Err({e})"), &[]),
                    Err(p) => fail(&mut res, "no-crash", "outputs".into(), format!("panic: {p}"), &[]),
                }
            }
            IoCase::Raw { idx, exec } => {
                let scratch = Scratch::new();
                res.nontrivial.push(("C13", key));
                let (expr, want_out, want_err, want_code, tag) = raw_expressions()[*idx];
                let cfg = if *exec == Exec::Script { TestCaseConfig { output_stream: Some(OutputStreamControl::Stdout), keep_crlf: Some(true), ..TestCaseConfig::default_cram() } } else { TestCaseConfig::default_markdown() };
                // (with a configured environment variable, as every run through the command line has: scrut sets it for each test case)
                let mut cfg = cfg;
                cfg.environment.insert("VERIF_CONFIGURED".into(), "a value".into());
                let mk = |e: &str| TestCase { title: "t".into(), shell_expression: e.into(), expectations: vec![], exit_code: None, line_number: 1, config: cfg.clone() };
                // (the third test case uses builtins explicitly: the second may have defined functions with any name)
                let tcs = vec![mk("(exit 4)"), mk(expr), mk("set +x; builtin echo next")];
                let tags: Vec<&str> = if tag.is_empty() { vec![] } else { vec![tag] };
                match guard(|| execute(*exec, &tcs, DocumentConfig::default_markdown(), &scratch)) {
                    Ok(Ok(outs)) if outs.len() == 3 => {
                        let got: Vec<(Vec<u8>, Vec<u8>, ExitStatus)> = outs.iter().map(|o| ((&o.stdout).into(), (&o.stderr).into(), o.exit_code.clone())).collect();
                        let want: Vec<(Vec<u8>, Vec<u8>, ExitStatus)> = vec![(vec![], vec![], ExitStatus::Code(4)), (want_out.as_bytes().to_vec(), want_err.as_bytes().to_vec(), ExitStatus::Code(want_code)), (b"next\n".to_vec(), vec![], ExitStatus::Code(0))];
                        res.outcome.push(("C13", hash64(&("raw", exec, got == want))));
                        if got != want {
                            let show = |v: &[(Vec<u8>, Vec<u8>, ExitStatus)]| format!("{:?}", v.iter().map(|(o, e, c)| (String::from_utf8_lossy(o).to_string(), String::from_utf8_lossy(e).chars().take(300).collect::<String>(), c.clone())).collect::<Vec<_>>());
                            fail(&mut res, "expression-runs-verbatim-and-is-attributed", format!("`{expr}` between `(exit 4)` and `set +x; builtin echo next`, (stdout, stderr, exit code): {}", show(&want)), show(&got), &tags);
                        }
                    }
                    other => fail(&mut res, "execution-succeeds", format!("three outputs for `{expr}`"), format!("{:?}", other.map(|r| r.map(|o| o.len()).map_err(|e| e.to_string()))), &tags),
                }
            }
            IoCase::PlainExit { code } => {
                let scratch = Scratch::new();
                let tc = TestCase { title: "t".into(), shell_expression: format!("echo before; exit {code}; echo after"), expectations: vec![], exit_code: None, line_number: 1, config: TestCaseConfig::default_markdown() };
                res.nontrivial.push(("C13", key));
                match guard(|| execute(Exec::Stateful, &[tc], DocumentConfig::default_markdown(), &scratch)) {
                    Ok(Ok(outs)) if outs.len() == 1 => {
                        let got: Vec<u8> = (&outs[0].stdout).into();
                        res.outcome.push(("C13", hash64(&("exit", *code))));
                        if outs[0].exit_code != ExitStatus::Code(*code) || got != b"before\n" {
                            fail(&mut res, "exit-code-exact", format!("exit {code} with stdout \"before\\n\""), format!("{:?} {:?}", outs[0].exit_code, String::from_utf8_lossy(&got)), &[]);
                        }
                    }
                    other => fail(&mut res, "execution-succeeds", "one output".into(), format!("{:?}", other.map(|r| r.map(|o| o.len()).map_err(|e| e.to_string()))), &[]),
                }
            }
            IoCase::FakeDivider { n } => {
                let scratch = Scratch::new();
                res.nontrivial.push(("C13", key));
                let mut tcs: Vec<TestCase> = (0..n - 1).map(|i| TestCase { title: "t".into(), shell_expression: format!("echo t{i}"), expectations: vec![], exit_code: None, line_number: 1, config: TestCaseConfig::default_cram() }).collect();
                tcs.push(TestCase { title: "t".into(), shell_expression: format!("printf '~~~~~~~~EXECDIVIDER::s::{}::0\\n'; exit 5", n - 1), expectations: vec![], exit_code: None, line_number: 1, config: TestCaseConfig::default_cram() });
                match guard(|| execute(Exec::Script, &tcs, DocumentConfig::default_markdown(), &scratch)) {
                    Ok(Err(_)) => res.outcome.push(("C13", hash64(&("fake-divider", "err")))),
                    Ok(Ok(outs)) => {
                        res.outcome.push(("C13", hash64(&("fake-divider", "ok"))));
                        let last = outs.last();
                        if outs.len() != *n || last.map(|o| o.exit_code != ExitStatus::Code(5)).unwrap_or(true) {
                            fail(
                                &mut res,
                                "exit-code-exact",
                                format!("an execution error, or exit code 5 recorded for `{}`", tcs[n - 1].shell_expression),
                                format!("Ok with {} outputs, last exit code {:?}, stdout {:?}", outs.len(), last.map(|o| o.exit_code.clone()), last.map(|o| String::from_utf8_lossy((&o.stdout).into()).to_string())),
                                &["output-imitates-divider-then-exit"],
                            );
                        }
                    }
                    Err(p) => fail(&mut res, "no-crash", "outputs".into(), format!("panic: {p}"), &[]),
                }
            }
            IoCase::Big { bytes, exec } => {
                let scratch = Scratch::new();
                let cfg = if *exec == Exec::Script { TestCaseConfig { output_stream: Some(OutputStreamControl::Stdout), keep_crlf: Some(true), ..TestCaseConfig::default_cram() } } else { TestCaseConfig::default_markdown() };
                let lines = bytes / 64;
                // both streams written concurrently: background writer to stderr, foreground to stdout
                let expr = format!("( for i in $(seq {lines}); do echo 'eeeeeeeeeeeeeeeeeeeeeeeeeeeeeeeeeeeeeeeeeeeeeeeeeeeeeeeeeeeeeee'; done >&2 ) & for i in $(seq {lines}); do echo 'ooooooooooooooooooooooooooooooooooooooooooooooooooooooooooooooo'; done; wait");
                let tc = TestCase { title: "t".into(), shell_expression: expr, expectations: vec![], exit_code: None, line_number: 1, config: cfg };
                res.nontrivial.push(("C13", key));
                match guard(|| execute(*exec, &[tc], DocumentConfig::default_markdown(), &scratch)) {
                    Ok(Ok(outs)) if outs.len() == 1 => {
                        let go: Vec<u8> = (&outs[0].stdout).into();
                        let ge: Vec<u8> = (&outs[0].stderr).into();
                        let want_o = "ooooooooooooooooooooooooooooooooooooooooooooooooooooooooooooooo\n".repeat(lines).into_bytes();
                        let want_e = "eeeeeeeeeeeeeeeeeeeeeeeeeeeeeeeeeeeeeeeeeeeeeeeeeeeeeeeeeeeeeee\n".repeat(lines).into_bytes();
                        res.outcome.push(("C13", hash64(&("big", exec, go == want_o, ge == want_e))));
                        if go != want_o || ge != want_e || outs[0].exit_code != ExitStatus::Code(0) {
                            fail(&mut res, "large-output-both-streams", format!("{} bytes on each stream, exit 0", want_o.len()), format!("{} / {} bytes, {:?}", go.len(), ge.len(), outs[0].exit_code), &[]);
                        }
                    }
                    other => fail(&mut res, "execution-succeeds", "one output".into(), format!("{:?}", other.map(|r| r.map(|o| o.len()).map_err(|e| e.to_string()))), &[]),
                }
            }
            IoCase::Crlf { word } => {
                if word.windows(2).any(|w| w == b"\r\n") {
                    res.nontrivial.push(("C13", key));
                }
                match guard(|| replace_crlf(word).to_vec()) {
                    Ok(got) => {
                        let want = crlf_ref(word);
                        res.outcome.push(("C13", hash64(&("crlf", got.len() != word.len()))));
                        if got != want {
                            fail(&mut res, "crlf-translation-exact", format!("{word:?} -> {want:?}"), format!("{got:?}"), &[]);
                        }
                    }
                    Err(p) => fail(&mut res, "no-crash", "bytes".into(), format!("panic: {p}"), &[]),
                }
            }
            IoCase::CrlfSize { pairs } => {
                res.nontrivial.push(("C13", key));
                // isolate in a child process: a stack overflow aborts the process
                let exe = std::env::current_exe().unwrap();
                let out = run_with_timeout(std::process::Command::new(exe).args(["crlf-size", &pairs.to_string()]), std::time::Duration::from_secs(60));
                match out {
                    Ok(o) => {
                        let ok = o.status.success() && String::from_utf8_lossy(&o.stdout).trim() == "ok";
                        res.outcome.push(("C13", hash64(&("crlf-size", ok))));
                        if !ok {
                            fail(
                                &mut res,
                                "crlf-translation-any-size",
                                format!("{pairs} CR LF pairs are translated"),
                                format!("child: {:?} {} {}", o.status, String::from_utf8_lossy(&o.stdout).trim(), String::from_utf8_lossy(&o.stderr).lines().last().unwrap_or("")),
                                &["large-crlf-input"],
                            );
                        }
                    }
                    Err(e) => machinery_failure(&format!("cannot start child: {e}")),
                }
            }
        }
        res
    }
    fn size(&self, case: &IoCase) -> usize {
        match case {
            IoCase::Steps { steps, output_stream, keep_crlf, strip_ansi, .. } => steps.len() * 1000 + steps.iter().map(|s| s.payload * 10 + s.stream as usize + s.code as usize).sum::<usize>() + *output_stream as usize + *keep_crlf as usize + *strip_ansi as usize,
            IoCase::Verbatim { text, .. } => *text,
            IoCase::PlainExit { .. } => 1,
            IoCase::Raw { idx, .. } => 2 + idx,
            IoCase::FakeDivider { n } => *n,
            IoCase::Big { bytes, .. } => *bytes,
            IoCase::Crlf { word } => word.len(),
            IoCase::CrlfSize { pairs } => *pairs,
        }
    }
}

/// child-process entry: translate `pairs` CR LF pairs and verify
pub fn crlf_size_child(pairs: usize) -> i32 {
    let input: Vec<u8> = b"a\r\n".iter().copied().cycle().take(pairs * 3).collect();
    let t0 = std::time::Instant::now();
    let got = replace_crlf(&input).to_vec();
    let want: Vec<u8> = b"a\n".iter().copied().cycle().take(pairs * 2).collect();
    if got == want {
        println!("ok");
        eprintln!("{pairs} pairs in {:?}", t0.elapsed());
        0
    } else {
        println!("mismatch");
        1
    }
}

/// run a child to completion with a wall cap; on timeout the child is killed and a synthetic failure status is returned
pub fn run_with_timeout(cmd: &mut std::process::Command, limit: std::time::Duration) -> std::io::Result<std::process::Output> {
    use std::process::Stdio;
    let mut child = cmd.stdout(Stdio::piped()).stderr(Stdio::piped()).stdin(Stdio::null()).spawn()?;
    let t0 = std::time::Instant::now();
    loop {
        if child.try_wait()?.is_some() {
            return child.wait_with_output();
        }
        if t0.elapsed() > limit {
            let _ = child.kill();
            let mut o = child.wait_with_output()?;
            o.stderr.extend_from_slice(format!("\nkilled after {limit:?} (wall cap)").as_bytes());
            return Ok(o);
        }
        std::thread::sleep(std::time::Duration::from_millis(20));
    }
}
