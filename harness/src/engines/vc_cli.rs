//! C15 (skip code), C18 (work directory / environment / clean-up) and C20 (every test once,
//! in order; exit status) through the real `scrut test` binary.

use std::collections::BTreeMap;
use std::time::Duration;

use serde::{Deserialize, Serialize};

use crate::cli::*;
use crate::core::*;

pub struct VcCli;

// ---------------------------------------------------------------- documents

/// behaviour of one test case
#[derive(Clone, Copy, Debug, Serialize, Deserialize, Hash, PartialEq, Eq)]
pub enum B {
    Pass,
    FailOutput,
    FailExit,
    /// exits with `code`; `expected` = an `[code]` line is written
    Exit { code: i32, expected: bool },
    /// cram only: plain `exit <code>` (ends the script)
    ScriptExit { code: i32 },
    Detached,
    /// sleep 30 under a 400 ms per-test timeout
    Timeout,
    /// like Timeout, but the shell ignores SIGTERM and the command ends by itself after 2 s
    TimeoutImmune,
    /// Markdown only: the shell kills itself with SIGKILL (no exit code); this and the following test cases are reported
    /// as some failure - never as skipped, never as success
    Killed,
}

#[derive(Clone, Debug, Serialize, Deserialize, Hash)]
pub struct Doc {
    pub name: String,
    pub cram: bool,
    pub tests: Vec<B>,
    /// front-matter: defaults.skip_document_code
    pub doc_skip_code: Option<i32>,
    /// inline {skip_document_code: N} on this test index
    pub inline_skip_code: Option<(usize, i32)>,
    pub fm_prepend: Vec<String>,
    pub fm_append: Vec<String>,
    /// a Markdown document that is run with `--cram-compat` (single-script execution of the whole document)
    #[serde(default)]
    pub script_mode: bool,
}

impl Doc {
    pub fn new(name: &str, cram: bool, tests: Vec<B>) -> Self {
        Self { name: name.into(), cram, tests, doc_skip_code: None, inline_skip_code: None, fm_prepend: vec![], fm_append: vec![], script_mode: false }
    }
    fn id(&self) -> String {
        self.name.replace('/', "_")
    }
    fn command(&self, i: usize, b: &B, extra: &str) -> (String, Vec<String>, Option<i32>, String) {
        // (command, expectation lines, written exit code, inline config)
        let log = format!("echo {}:{} >> \"$VERIF_LOG\"", self.id(), i);
        let sub = |c: i32| if self.cram || self.script_mode { format!("(exit {c})") } else { format!("exit {c}") };
        let (cmd, exps, code, cfg): (String, Vec<String>, Option<i32>, String) = match b {
            B::Pass => ("true".into(), vec![], None, String::new()),
            B::FailOutput => ("echo other".into(), vec!["hello".into()], None, String::new()),
            B::FailExit => (sub(1), vec![], None, String::new()),
            B::Exit { code, expected } => (sub(*code), vec![], if *expected { Some(*code) } else { None }, String::new()),
            B::ScriptExit { code } => (format!("exit {code}"), vec![], None, String::new()),
            B::Detached => ("sleep 0.05".into(), vec![], None, "detached: true".into()),
            B::Timeout => ("sleep 30".into(), vec![], None, "timeout: 400ms".into()),
            B::Killed => ("kill -9 $$".into(), vec![], None, String::new()),
            B::TimeoutImmune => ("trap '' TERM; sleep 2".into(), vec![], None, "timeout: 400ms".into()),
        };
        let cmd = if extra.is_empty() { format!("{log}; {cmd}") } else { format!("{log}; {extra}; {cmd}") };
        (cmd, exps, code, cfg)
    }
    pub fn text(&self, extra: &dyn Fn(usize) -> String) -> String {
        let mut d = String::new();
        if !self.cram && (self.doc_skip_code.is_some() || !self.fm_prepend.is_empty() || !self.fm_append.is_empty()) {
            d.push_str("---\n");
            if let Some(c) = self.doc_skip_code {
                d.push_str(&format!("defaults:\n  skip_document_code: {c}\n"));
            }
            if !self.fm_prepend.is_empty() {
                d.push_str(&format!("prepend: [{}]\n", self.fm_prepend.join(", ")));
            }
            if !self.fm_append.is_empty() {
                d.push_str(&format!("append: [{}]\n", self.fm_append.join(", ")));
            }
            d.push_str("---\n\n");
        }
        for (i, b) in self.tests.iter().enumerate() {
            let (cmd, exps, code, mut cfg) = self.command(i, b, &extra(i));
            if let Some((idx, c)) = self.inline_skip_code {
                if idx == i {
                    cfg = if cfg.is_empty() { format!("skip_document_code: {c}") } else { format!("{cfg}, skip_document_code: {c}") };
                }
            }
            if self.cram {
                d.push_str(&format!("Test {}:{i}\n  $ {cmd}\n", self.id()));
                for e in exps {
                    d.push_str(&format!("  {e}\n"));
                }
                if let Some(c) = code {
                    d.push_str(&format!("  [{c}]\n"));
                }
                d.push('\n');
            } else {
                let cfg = if cfg.is_empty() { String::new() } else { format!(" {{{cfg}}}") };
                d.push_str(&format!("# Test {}:{i}\n\n```scrut{cfg}\n$ {cmd}\n", self.id()));
                for e in exps {
                    d.push_str(&format!("{e}\n"));
                }
                if let Some(c) = code {
                    d.push_str(&format!("[{c}]\n"));
                }
                d.push_str("```\n\n");
            }
        }
        d
    }
}

/// like `reference_doc`, with the title of the test case each result belongs to
pub fn reference_doc_titled(doc: &Doc, seq: &[(String, usize, B, i32)]) -> (Vec<(String, &'static str)>, Vec<String>) {
    let (kinds, log) = reference_doc(doc, seq);
    let title = |k: usize| format!("Test {}:{}", seq[k].0, seq[k].1);
    let mut out = vec![];
    if kinds.len() == seq.len() && kinds.iter().all(|k| *k == "skipped") {
        for k in 0..seq.len() {
            out.push((title(k), "skipped"));
        }
        return (out, log);
    }
    if kinds == vec!["<error>"] {
        return (vec![(String::new(), "<error>")], log);
    }
    // otherwise results are produced in sequence order, one per entry until a timeout, then skipped for the rest
    for (k, kind) in kinds.iter().enumerate() {
        out.push((title(k), *kind));
    }
    (out, log)
}

/// reference for one document execution: (result kinds in report order, log lines in order)
pub fn reference_doc(doc: &Doc, seq: &[(String, usize, B, i32)]) -> (Vec<&'static str>, Vec<String>) {
    // seq: (doc id, index, behaviour, effective skip code) of prepends + own + appends
    let mut kinds: Vec<&'static str> = vec![];
    let mut log = vec![];
    let cram = doc.cram || doc.script_mode;
    let mut i = 0;
    while i < seq.len() {
        let (id, idx, b, skip) = &seq[i];
        log.push(format!("{id}:{idx}"));
        let code = match b {
            B::Pass | B::FailOutput | B::Detached | B::Timeout | B::TimeoutImmune | B::Killed => 0,
            B::FailExit => 1,
            B::Exit { code, .. } | B::ScriptExit { code } => *code,
        };
        if matches!(b, B::ScriptExit { .. }) {
            // cram: the script ends here; if the code is the skip code the document is skipped, otherwise scrut fails
            if code == *skip {
                return (vec!["skipped"; seq.len()], log);
            }
            return (vec!["<error>"], log);
        }
        if code == *skip && !matches!(b, B::Pass | B::FailOutput | B::Detached | B::Timeout | B::TimeoutImmune | B::Killed) {
            if cram {
                // the script runs on; the document is reported skipped afterwards
                for (id2, idx2, _, _) in &seq[i + 1..] {
                    log.push(format!("{id2}:{idx2}"));
                }
            }
            return (vec!["skipped"; seq.len()], log);
        }
        match b {
            B::Pass => kinds.push("success"),
            B::FailOutput => kinds.push("malformed_output"),
            B::FailExit => kinds.push("invalid_exit_code"),
            B::Exit { expected, .. } => kinds.push(if *expected { "success" } else { "invalid_exit_code" }),
            B::ScriptExit { .. } => unreachable!(),
            B::Detached => kinds.push("detached?"),
            B::Killed => {
                // no exit code: this one and all following are failures of some kind ("!ok" = neither success nor skipped)
                kinds.push("!ok");
                for (id2, idx2, _, _) in &seq[i + 1..] {
                    let _ = (id2, idx2);
                    kinds.push("!ok");
                }
                return (kinds, log);
            }
            B::Timeout | B::TimeoutImmune => {
                kinds.push("timeout");
                for _ in &seq[i + 1..] {
                    kinds.push("skipped");
                }
                return (kinds, log);
            }
        }
        i += 1;
    }
    (kinds, log)
}

// ---------------------------------------------------------------- cases

#[derive(Clone, Debug, Serialize, Deserialize, Hash)]
pub enum CliCase {
    /// C15: one document under test plus an optional ordinary second document
    Skip { doc: Doc, second: Option<Vec<B>> },
    /// C20: documents given on the command line (or their directory), CLI prepend/append
    Order { docs: Vec<Doc>, aux: Vec<Doc>, cli_prepend: Vec<String>, cli_append: Vec<String>, by_directory: bool },
    /// C20: error classes: 0 missing path, 1 invalid UTF-8, 2 unparsable, 3 shell missing
    ErrorClass { kind: u8, with_good_doc: bool },
    /// C18: per document outcome class: 0 success 1 validation failure 2 timeout 3 skip 4 parse error 5 execution error (cram `exit 3`) 6 shell not executable
    Env { classes: Vec<u8>, crams: Vec<bool>, same_names: bool, flag: u8, tamper: bool },
    /// C18: the test cases of prepended and appended documents get the documented environment of the run, too
    EnvPrepend { cram: bool },
    /// C18 (sampling, labelled): k scrut processes at the same time on one TMPDIR
    Concurrent { k: usize, round: usize },
}

fn kinds_of(run: &CliRun) -> Result<Vec<String>, String> {
    run.json_kinds()
}

fn log_lines(sb: &Sandbox) -> Vec<String> {
    std::fs::read_to_string(sb.scratch.path().join("log")).map(|t| t.lines().map(|l| l.to_string()).collect()).unwrap_or_default()
}

fn env_for(sb: &Sandbox) -> Vec<(&'static str, String)> {
    vec![("VERIF_LOG", sb.scratch.path().join("log").to_string_lossy().to_string()), ("VERIF_MARK", sb.scratch.path().join("mark").to_string_lossy().to_string())]
}

fn summary_counts(pretty: &str) -> Option<(usize, usize, usize, usize)> {
    // Result: N document(s) with M testcase(s): a succeeded, b failed and c skipped
    let l = pretty.lines().rev().find(|l| l.starts_with("Result: "))?;
    let nums: Vec<usize> = l.split(|c: char| !c.is_ascii_digit()).filter(|s| !s.is_empty()).filter_map(|s| s.parse().ok()).collect();
    if nums.len() >= 5 {
        Some((nums[1], nums[2], nums[3], nums[4]))
    } else {
        None
    }
}

const ENV_PROBE: &str = r#"{ echo "PWD=$PWD"; for v in TESTDIR TESTFILE TESTSHELL TMPDIR SCRUT_TEST LANG LANGUAGE LC_ALL TZ COLUMNS CDPATH GREP_OPTIONS SHELL CRAMTMP TMP TEMP; do eval "echo $v=\${$v-<unset>}"; done; [ -d "$TMPDIR" ] && echo TMPDIR_IS_DIR; echo END; } >> "$VERIF_MARK""#;

impl Engine for VcCli {
    type Case = CliCase;
    fn name(&self) -> &'static str {
        "vc_cli"
    }
    fn properties(&self) -> Vec<&'static str> {
        vec!["C15", "C18", "C20"]
    }
    fn chunk(&self) -> usize {
        2
    }
    fn case_timeout(&self) -> Duration {
        Duration::from_secs(180)
    }
    fn level(&self, p: &str) -> &'static str {
        if p == "C18" {
            "fault_enumeration"
        } else {
            "exploration"
        }
    }
    fn relevant(&self, property: &str, case: &CliCase) -> bool {
        match case {
            CliCase::Skip { .. } => property == "C15",
            CliCase::Order { .. } | CliCase::ErrorClass { .. } => property == "C20",
            CliCase::Env { .. } | CliCase::Concurrent { .. } | CliCase::EnvPrepend { .. } => property == "C18",
        }
    }

    fn cases(&self, tier: Tier) -> Box<dyn Iterator<Item = CliCase> + Send + '_> {
        let quick = tier == Tier::Quick;
        let mut v = vec![];
        // ---------------- C15
        let md_items = [B::Pass, B::FailOutput, B::FailExit, B::Exit { code: 80, expected: false }, B::Exit { code: 80, expected: true }, B::Exit { code: 81, expected: false }, B::Exit { code: 81, expected: true }, B::Killed];
        let depth = if quick { 2 } else { 3 };
        for w in words_upto(md_items.len(), depth) {
            if w.is_empty() {
                continue;
            }
            let tests: Vec<B> = w.iter().map(|i| md_items[*i]).collect();
            for setting in 0..3u8 {
                let mut doc = Doc::new("a/doc.md", false, tests.clone());
                match setting {
                    1 => doc.doc_skip_code = Some(81),
                    2 => {
                        // inline on the first test that exits 81, else on test 0
                        let idx = tests.iter().position(|b| matches!(b, B::Exit { code: 81, .. })).unwrap_or(0);
                        doc.inline_skip_code = Some((idx, 81));
                    }
                    _ => {}
                }
                let seconds: Vec<Option<Vec<B>>> = if w.len() == depth && !quick { vec![None] } else { vec![None, Some(vec![B::Pass]), Some(vec![B::FailOutput])] };
                for second in seconds {
                    v.push(CliCase::Skip { doc: doc.clone(), second });
                }
                // the same Markdown document executed as one script (`--cram-compat`): default and front-matter skip code
                // (not with a shell that kills itself: that ends the single script, a documented limit of that mode)
                if setting < 2 && !tests.contains(&B::Killed) {
                    let mut d2 = doc.clone();
                    d2.script_mode = true;
                    v.push(CliCase::Skip { doc: d2.clone(), second: None });
                    if w.len() < depth {
                        v.push(CliCase::Skip { doc: d2, second: Some(vec![B::Pass]) });
                    }
                }
            }
        }
        let cram_items = [B::Pass, B::FailOutput, B::FailExit, B::Exit { code: 80, expected: false }, B::Exit { code: 80, expected: true }, B::Exit { code: 81, expected: false }, B::Exit { code: 81, expected: true }, B::ScriptExit { code: 80 }];
        for w in words_upto(cram_items.len(), depth) {
            if w.is_empty() {
                continue;
            }
            let tests: Vec<B> = w.iter().map(|i| cram_items[*i]).collect();
            // a plain `exit` only as last command (anything after it is never executed and scrut reports an error)
            if tests.iter().take(tests.len() - 1).any(|b| matches!(b, B::ScriptExit { .. })) {
                continue;
            }
            let seconds: Vec<Option<Vec<B>>> = if w.len() == depth { vec![None] } else { vec![None, Some(vec![B::Pass])] };
            for second in seconds {
                v.push(CliCase::Skip { doc: Doc::new("a/doc.t", true, tests.clone()), second });
            }
        }
        // ---------------- C20
        let md_b = [B::Pass, B::FailOutput, B::FailExit, B::Exit { code: 80, expected: false }, B::Detached, B::Timeout, B::Exit { code: 81, expected: false }];
        let cram_b = [B::Pass, B::FailOutput, B::FailExit];
        let pre = Doc::new("pre.md", false, vec![B::Pass]);
        let pre_fail = Doc::new("pre.md", false, vec![B::FailOutput]);
        let mut pre_skip = Doc::new("pre.md", false, vec![B::Pass, B::Exit { code: 81, expected: false }]);
        pre_skip.doc_skip_code = Some(81);
        let app = Doc::new("app.md", false, vec![B::Pass, B::FailExit]);
        let tdepth = if quick { 2 } else { 3 };
        // single document, every behaviour sequence, every prepend/append variant
        for w in words_upto(md_b.len(), tdepth) {
            let tests: Vec<B> = w.iter().map(|i| md_b[*i]).collect();
            if tests.iter().filter(|b| matches!(b, B::Timeout)).count() > 1 {
                continue;
            }
            let has81 = tests.iter().position(|b| matches!(b, B::Exit { code: 81, .. }));
            // (a main document without test cases of its own: only together with prepended / appended ones, which run all the same)
            let mut variants: Vec<u8> = if w.is_empty() { vec![1, 2, 3, 4, 5, 6, 7, 8] } else if w.len() == tdepth && !quick { vec![0] } else { vec![0, 1, 2, 3, 4, 5, 6, 7, 8] };
            if has81.is_some() {
                variants.push(9);
            }
            for variant in variants {
                let mut doc = Doc::new("d1/one.md", false, tests.clone());
                let (mut cp, mut ca, mut aux) = (vec![], vec![], vec![]);
                match variant {
                    1 => {
                        doc.fm_prepend = vec!["../pre.md".into()];
                        aux.push(pre.clone());
                    }
                    2 => {
                        doc.fm_append = vec!["../app.md".into()];
                        aux.push(app.clone());
                    }
                    3 => {
                        cp = vec!["pre.md".to_string()];
                        aux.push(pre.clone());
                    }
                    4 => {
                        ca = vec!["app.md".to_string()];
                        aux.push(app.clone());
                    }
                    5 => {
                        doc.fm_prepend = vec!["../pre.md".into()];
                        doc.fm_append = vec!["../app.md".into()];
                        cp = vec!["pre2.md".to_string()];
                        ca = vec!["app2.md".to_string()];
                        aux.push(pre.clone());
                        aux.push(app.clone());
                        aux.push(Doc::new("pre2.md", false, vec![B::Pass]));
                        aux.push(Doc::new("app2.md", false, vec![B::FailOutput]));
                    }
                    6 => {
                        doc.fm_prepend = vec!["../pre.md".into()];
                        aux.push(pre_fail.clone());
                    }
                    // a prepended document that skips with a skip code of its own (front-matter / command line):
                    // nothing of the combined document runs after it
                    7 => {
                        doc.fm_prepend = vec!["../pre.md".into()];
                        aux.push(pre_skip.clone());
                    }
                    8 => {
                        cp = vec!["pre.md".to_string()];
                        aux.push(pre_skip.clone());
                    }
                    // the test case that exits with 81 declares 81 as its skip code
                    9 => doc.inline_skip_code = Some((has81.unwrap(), 81)),
                    _ => {}
                }
                v.push(CliCase::Order { docs: vec![doc], aux, cli_prepend: cp, cli_append: ca, by_directory: false });
            }
        }
        // several documents, mixed formats, also as directory
        let ndocs = if quick { 2 } else { 3 };
        let doc_shapes: Vec<(bool, Vec<B>)> = vec![
            (false, vec![B::Pass]),
            (false, vec![B::FailOutput, B::Pass]),
            (false, vec![B::Exit { code: 80, expected: false }, B::Pass]),
            (false, vec![B::Pass, B::Timeout, B::Pass]),
            (true, vec![B::Pass, B::FailExit]),
            (true, vec![B::FailOutput]),
            (false, vec![B::Detached, B::FailExit]),
        ];
        for w in words(doc_shapes.len(), ndocs) {
            if w.iter().filter(|i| **i == 3).count() > 1 {
                continue;
            }
            let docs: Vec<Doc> = w.iter().enumerate().map(|(k, i)| Doc::new(&format!("m/doc{k}.{}", if doc_shapes[*i].0 { "t" } else { "md" }), doc_shapes[*i].0, doc_shapes[*i].1.clone())).collect();
            for by_directory in [false, true] {
                for cli in [false, true] {
                    // a Markdown prepend cannot be combined with a Cram document (different, fixed configuration): only for all-Markdown runs
                    if cli && (by_directory || docs.iter().any(|d| d.cram)) {
                        continue;
                    }
                    let (cp, aux) = if cli { (vec!["pre.md".to_string()], vec![pre.clone()]) } else { (vec![], vec![]) };
                    v.push(CliCase::Order { docs: docs.clone(), aux, cli_prepend: cp, cli_append: vec![], by_directory });
                }
            }
        }
        for kind in 0..4u8 {
            for with_good_doc in [false, true] {
                v.push(CliCase::ErrorClass { kind, with_good_doc });
            }
        }
        // ---------------- C18
        let max_docs = if quick { 2 } else { 3 };
        for n in 1..=max_docs {
            for w in words(8, n) {
                let classes: Vec<u8> = w.iter().map(|x| *x as u8).collect();
                // at most one timeout per run (wall time), shell error only alone; the SIGTERM-immune timeout only in short runs
                if classes.iter().filter(|c| **c == 2 || **c == 7).count() > 1 || (classes.contains(&6) && n > 1) || (classes.contains(&7) && (n > 2 || classes.iter().any(|c| *c != 7 && *c != 0))) {
                    continue;
                }
                for flag in 0..3u8 {
                    for cram_mask in 0..(1u32 << n) {
                        let crams: Vec<bool> = (0..n).map(|k| cram_mask >> k & 1 == 1).collect();
                        // class 5 (script `exit 3`) is a cram class; 2 (per-test timeout) and 3 via inline need markdown
                        if classes.iter().zip(crams.iter()).any(|(c, cr)| (*c == 5 && !*cr) || ((*c == 2 || *c == 7) && *cr)) {
                            continue;
                        }
                        if n == max_docs && !quick && cram_mask != 0 && flag != 0 {
                            continue;
                        }
                        for same_names in [false, true] {
                            if same_names && n == 1 {
                                continue;
                            }
                            v.push(CliCase::Env { classes: classes.clone(), crams: crams.clone(), same_names, flag, tamper: false });
                        }
                    }
                }
            }
        }
        for class in [0u8, 1, 2, 3] {
            for cram in [false, true] {
                v.push(CliCase::Env { classes: vec![class], crams: vec![cram], same_names: false, flag: 3, tamper: false });
            }
        }
        v.push(CliCase::EnvPrepend { cram: false });
        v.push(CliCase::EnvPrepend { cram: true });
        for flag in 0..3u8 {
            v.push(CliCase::Env { classes: vec![0], crams: vec![false], same_names: false, flag, tamper: true });
            v.push(CliCase::Env { classes: vec![0, 0], crams: vec![false, true], same_names: false, flag, tamper: true });
        }
        let rounds = if quick { 3 } else { 20 };
        for round in 0..rounds {
            v.push(CliCase::Concurrent { k: 4, round });
        }
        Box::new(v.into_iter())
    }

    fn bound(&self, tier: Tier) -> String {
        let q = tier == Tier::Quick;
        format!(
            "C15: every Markdown document of 1..{d} test cases over {{pass, fail-output, fail-exit, exit 80, exit 80 with [80], exit 81, exit 81 with [81]}} x skip code setting {{default, front-matter defaults 81, inline 81}} x second document {{none, passing, failing}}; every Cram document of 1..{d} over the same plus a final plain `exit 80`. C20: every single Markdown document of 1..{d} test cases over {{pass, fail-output, fail-exit, exit 80, detached, timeout, exit 81}} x 9 prepend/append variants (front-matter, -P/-A, both, failing prepend, a prepended document that skips with a skip code of its own) + inline skip code 81; every run of {n} documents over 7 document shapes (Markdown and Cram mixed) given as files, as a directory, and with -P; 4 error classes. C18: every run of 1..{n} documents over 8 outcome classes (success, validation failure, timeout, skip, parse error, script exit error, shell not executable, timeout of a shell that ignores SIGTERM - observed after that shell has ended) x {{no flag, --work-directory, --keep-temporary-directories}} x format mixes (and --work-directory with a path that does not exist for 4 classes x 2 formats) x same/different file names, plus a run with prepended and appended documents (their test cases get the environment of the run), tampering histories (test 1 overwrites TESTDIR / unsets TMPDIR) and {r} rounds of 4 concurrent scrut processes on one TMPDIR (sampling, not what the property is decided on)",
            d = if q { 2 } else { 3 },
            n = if q { 2 } else { 3 },
            r = if q { 3 } else { 20 }
        )
    }
    fn rule(&self, p: &str) -> String {
        match p {
            "C15" => "scenarios are distinct tuples by construction; non-trivial = some test case exits with 80 or 81; outcome = (format, setting, kinds, exit status)".into(),
            "C18" => "scenarios are distinct tuples by construction; non-trivial = more than one document, or a failing outcome class, or a flag; outcome = (classes, flag, left-over entries, exit status)".into(),
            _ => "scenarios are distinct tuples by construction; non-trivial = more than one test case or document, or prepend/append, or an error class; outcome = (kinds, log length, exit status)".into(),
        }
    }
    fn assumptions(&self, p: &str) -> Vec<String> {
        let mut v = vec!["real binary built from /repo's working tree, /bin/bash of this image; every scenario runs in a private TMPDIR/HOME/cwd and its own process group".to_string()];
        if p == "C18" {
            v.push("L2: several scrut processes at once cannot be put under a controlled scheduler here; the concurrent rounds are free-running sampling, the exhaustive grid over outcome classes x flags decides the property".into());
        }
        if p == "C20" {
            v.push("the order of documents found in a directory argument is not promised (read_dir order); for directory runs the log is compared per document".into());
        }
        v
    }
    fn extra_coverage(&self, p: &str, s: &Stats) -> BTreeMap<String, serde_json::Value> {
        let mut m = BTreeMap::new();
        if p == "C18" {
            m.insert("sampling_concurrent_rounds".into(), serde_json::json!(s.counters.get("concurrent_rounds").copied().unwrap_or(0)));
        }
        m
    }

    fn check(&self, case: &CliCase) -> CaseResult {
        match case {
            CliCase::Skip { doc, second } => check_skip(case, doc, second),
            CliCase::Order { docs, aux, cli_prepend, cli_append, by_directory } => check_order(case, docs, aux, cli_prepend, cli_append, *by_directory),
            CliCase::ErrorClass { kind, with_good_doc } => check_error_class(case, *kind, *with_good_doc),
            CliCase::Env { classes, crams, same_names, flag, tamper } => check_env(case, classes, crams, *same_names, *flag, *tamper),
            CliCase::EnvPrepend { cram } => check_env_prepend(case, *cram),
            CliCase::Concurrent { k, round } => check_concurrent(case, *k, *round),
        }
    }
    fn size(&self, case: &CliCase) -> usize {
        serde_json::to_string(case).map(|s| s.len()).unwrap_or(0)
    }
}

/// `want` may contain "detached?" entries: a detached test case has at most one result (a success), the others exactly one
fn kinds_match(got: &[&str], want: &[&str]) -> bool {
    fn rec(g: &[&str], w: &[&str]) -> bool {
        match w.first() {
            None => g.is_empty(),
            Some(&"detached?") => rec(g, &w[1..]) || (g.first() == Some(&"success") && rec(&g[1..], &w[1..])),
            Some(k) => g.first() == Some(k) && rec(&g[1..], &w[1..]),
        }
    }
    rec(got, want)
}

/// the same on (title, kind) pairs: every result must belong to the test case the reference says
fn results_match(got: &[(String, String)], want: &[(String, &str)]) -> bool {
    fn rec(g: &[(String, String)], w: &[(String, &str)]) -> bool {
        match w.first() {
            None => g.is_empty(),
            Some((t, "detached?")) => rec(g, &w[1..]) || (g.first().map(|x| x.0 == *t && x.1 == "success").unwrap_or(false) && rec(&g[1..], &w[1..])),
            Some((t, k)) => g.first().map(|x| x.0 == *t && x.1 == *k).unwrap_or(false) && rec(&g[1..], &w[1..]),
        }
    }
    rec(got, want)
}

/// order of the log with the entries of detached test cases (which log asynchronously) taken out, and those entries as a sorted list
fn split_log(log: &[String], detached: &[String]) -> (Vec<String>, Vec<String>) {
    let mut d: Vec<String> = log.iter().filter(|l| detached.contains(l)).cloned().collect();
    d.sort();
    (log.iter().filter(|l| !detached.contains(l)).cloned().collect(), d)
}

fn effective_skip(doc: &Doc, i: usize) -> i32 {
    match doc.inline_skip_code {
        Some((idx, c)) if idx == i => c,
        _ => doc.doc_skip_code.unwrap_or(80),
    }
}

fn own_seq(doc: &Doc) -> Vec<(String, usize, B, i32)> {
    doc.tests.iter().enumerate().map(|(i, b)| (doc.id(), i, *b, effective_skip(doc, i))).collect()
}

fn check_skip(case: &CliCase, doc: &Doc, second: &Option<Vec<B>>) -> CaseResult {
    let mut res = CaseResult::default();
    let sb = Sandbox::new();
    sb.write(&doc.name, doc.text(&|_| String::new()).as_bytes());
    let mut args = vec!["test", "--no-color", "-r", "json", doc.name.as_str()];
    let second_doc = second.as_ref().map(|t| Doc::new("b/other.md", false, t.clone()));
    if let Some(d2) = &second_doc {
        sb.write(&d2.name, d2.text(&|_| String::new()).as_bytes());
        args.push(d2.name.as_str());
    }
    if doc.script_mode {
        args.push("--cram-compat");
    }
    let run = run_scrut(&sb, &args, &env_for(&sb), Duration::from_secs(60));
    let (mut want, _) = reference_doc(doc, &own_seq(doc));
    let doc_kinds = want.clone();
    if let Some(d2) = &second_doc {
        want.extend(reference_doc(d2, &own_seq(d2)).0);
    }
    if doc.tests.iter().any(|b| matches!(b, B::Exit { .. } | B::ScriptExit { .. })) {
        res.nontrivial.push(("C15", hash64(case)));
    }
    let describe = || format!("{:?}{} (+ second document {:?})", doc.text(&|_| String::new()), if doc.script_mode { " run with --cram-compat" } else { "" }, second);
    let kinds = kinds_of(&run);
    res.outcome.push(("C15", hash64(&(doc.cram, doc.script_mode, doc.doc_skip_code, doc.inline_skip_code.is_some(), kinds.as_ref().ok().cloned(), run.status))));
    if want.contains(&"<error>") {
        if run.status != Some(1) {
            res.findings.push(Finding::new("C15", "script-exit-with-other-code-is-an-error", format!("{}: exit status 1", describe()), format!("{:?} {:?}", run.status, kinds)));
        }
        return res;
    }
    match kinds {
        Ok(k) => {
            let got: Vec<&str> = k.iter().map(|s| s.as_str()).collect();
            let same = got.len() == want.len() && got.iter().zip(want.iter()).all(|(g, w)| if *w == "!ok" { !matches!(*g, "success" | "skipped") } else { g == w });
            if !same {
                let skipped_expected = doc_kinds.iter().all(|x| *x == "skipped") && !doc_kinds.is_empty();
                let clause = if skipped_expected { "skip-code-skips-whole-document" } else if got.iter().any(|x| *x == "skipped") { "nothing-else-is-skipped" } else { "result-kinds" };
                res.findings.push(Finding::new("C15", clause, format!("{}: {want:?}", describe()), format!("{got:?}")));
            }
            let want_status = if want.iter().any(|x| !matches!(*x, "success" | "skipped")) { 50 } else { 0 };
            if run.status != Some(want_status) {
                res.findings.push(Finding::new("C15", "skipped-document-does-not-fail-the-run", format!("{}: exit status {want_status}", describe()), format!("{:?}; stderr: {}", run.status, run.stderr_str().lines().last().unwrap_or(""))));
            }
        }
        Err(e) => res.findings.push(Finding::new("C15", "report-produced", describe(), format!("{e}; status {:?}; stderr {}", run.status, run.stderr_str().lines().last().unwrap_or("")))),
    }
    res
}

fn check_order(case: &CliCase, docs: &[Doc], aux: &[Doc], cli_prepend: &[String], cli_append: &[String], by_directory: bool) -> CaseResult {
    let mut res = CaseResult::default();
    let sb = Sandbox::new();
    for d in docs.iter().chain(aux.iter()) {
        sb.write(&d.name, d.text(&|_| String::new()).as_bytes());
    }
    let find = |name: &str| -> Option<&Doc> { aux.iter().find(|d| d.name == name.trim_start_matches("../")) };
    // expected per main document
    let mut want_kinds: Vec<&'static str> = vec![];
    let mut want_titled: Vec<(String, &'static str)> = vec![];
    let mut want_log: Vec<String> = vec![];
    let mut per_doc_log: Vec<Vec<String>> = vec![];
    for d in docs {
        let mut seq = vec![];
        for p in cli_prepend.iter().chain(d.fm_prepend.iter()) {
            if let Some(a) = find(p) {
                seq.extend(own_seq(a));
            }
        }
        seq.extend(own_seq(d));
        for p in d.fm_append.iter().chain(cli_append.iter()) {
            if let Some(a) = find(p) {
                seq.extend(own_seq(a));
            }
        }
        let (k, l) = reference_doc(d, &seq);
        want_titled.extend(reference_doc_titled(d, &seq).0);
        want_kinds.extend(k);
        want_log.extend(l.clone());
        per_doc_log.push(l);
    }
    let mut args: Vec<String> = vec!["test".into(), "--no-color".into()];
    let mut tail: Vec<String> = vec![];
    if by_directory {
        tail.push("m".into());
    } else {
        for d in docs {
            tail.push(d.name.clone());
        }
    }
    for p in cli_prepend {
        tail.push("-P".into());
        tail.push(p.clone());
    }
    for p in cli_append {
        tail.push("-A".into());
        tail.push(p.clone());
    }
    let mut json_args = args.clone();
    json_args.extend(["-r".to_string(), "json".to_string()]);
    json_args.extend(tail.clone());
    args.extend(tail);
    let jrefs: Vec<&str> = json_args.iter().map(|s| s.as_str()).collect();
    // detached test cases are not waited for by scrut: give them time to log before their process group is cleaned up
    let has_detached = docs.iter().chain(aux.iter()).any(|d| d.tests.contains(&B::Detached));
    let detached_ids: Vec<String> = docs.iter().chain(aux.iter()).flat_map(|d| d.tests.iter().enumerate().filter(|(_, b)| **b == B::Detached).map(move |(i, _)| format!("{}:{}", d.id(), i))).collect();
    let run = run_scrut_observed(&sb, &jrefs, &env_for(&sb), Duration::from_secs(90), &mut || {
        if has_detached {
            std::thread::sleep(Duration::from_millis(500));
        }
    });
    let log1 = log_lines(&sb);
    if docs.len() > 1 || docs[0].tests.len() > 1 || !aux.is_empty() {
        res.nontrivial.push(("C20", hash64(case)));
    }
    let describe = || format!("documents {:?}, aux {:?}, -P {cli_prepend:?} -A {cli_append:?}, directory={by_directory}", docs.iter().map(|d| (d.name.clone(), d.tests.clone(), d.fm_prepend.clone(), d.fm_append.clone())).collect::<Vec<_>>(), aux.iter().map(|d| (d.name.clone(), d.tests.clone())).collect::<Vec<_>>());
    // every test case once, in order
    if by_directory {
        // per document (order of documents in a directory is not promised)
        for (d, l) in docs.iter().zip(per_doc_log.iter()) {
            let got: Vec<String> = log1.iter().filter(|x| x.starts_with(&format!("{}:", d.id()))).cloned().collect();
            let want: Vec<String> = l.iter().filter(|x| x.starts_with(&format!("{}:", d.id()))).cloned().collect();
            if split_log(&got, &detached_ids) != split_log(&want, &detached_ids) {
                res.findings.push(Finding::new("C20", "every-test-once-in-order", format!("{}: document {} runs {want:?}", describe(), d.name), format!("{got:?}")));
            }
        }
    } else if split_log(&log1, &detached_ids) != split_log(&want_log, &detached_ids) {
        res.findings.push(Finding::new("C20", "every-test-once-in-order", format!("{}: executed {want_log:?}", describe()), format!("{log1:?}")));
    }
    let kinds = kinds_of(&run);
    res.outcome.push(("C20", hash64(&(kinds.as_ref().ok().cloned(), log1.len(), run.status))));
    let mut sorted_want = want_kinds.clone();
    match &kinds {
        Ok(k) => {
            let mut got: Vec<&str> = k.iter().map(|s| s.as_str()).collect();
            let ok = if by_directory {
                // order of documents not promised: compare as multisets, a detached test may or may not contribute a success
                got.sort();
                sorted_want.sort();
                let without: Vec<&str> = sorted_want.iter().copied().filter(|k| *k != "detached?").collect();
                let optional = sorted_want.len() - without.len();
                let mut g2 = got.clone();
                let mut matched = true;
                for w in &without {
                    match g2.iter().position(|x| x == w) {
                        Some(p) => {
                            g2.remove(p);
                        }
                        None => matched = false,
                    }
                }
                matched && g2.len() <= optional && g2.iter().all(|x| *x == "success")
            } else {
                kinds_match(&got, &sorted_want) && run.json_results().map(|r| results_match(&r, &want_titled)).unwrap_or(false)
            };
            if !ok {
                res.findings.push(Finding::new("C20", "one-result-per-test-case", format!("{}: {want_titled:?}", describe()), format!("{:?}", run.json_results())));
            }
        }
        Err(e) => res.findings.push(Finding::new("C20", "report-produced", describe(), format!("{e}; status {:?}; stderr {}", run.status, run.stderr_str().lines().last().unwrap_or("")))),
    }
    let failed = want_kinds.iter().filter(|k| !matches!(**k, "success" | "skipped" | "detached?")).count();
    let optional = want_kinds.iter().filter(|k| **k == "detached?").count();
    let want_status = if failed > 0 { 50 } else { 0 };
    if run.status != Some(want_status) {
        res.findings.push(Finding::new("C20", "exit-status", format!("{}: {want_status}", describe()), format!("{:?}; stderr {}", run.status, run.stderr_str().lines().last().unwrap_or(""))));
    }
    // pretty summary adds up (second run; skipped for scenarios with a timeout to keep wall time down)
    if !want_kinds.contains(&"timeout") {
        let _ = std::fs::remove_file(sb.scratch.path().join("log"));
        let prefs: Vec<&str> = args.iter().map(|s| s.as_str()).collect();
        let run2 = run_scrut(&sb, &prefs, &env_for(&sb), Duration::from_secs(90));
        let ok = want_kinds.iter().filter(|k| **k == "success").count();
        let skipped = want_kinds.iter().filter(|k| **k == "skipped").count();
        match summary_counts(&run2.stdout_str()) {
            Some((total, s, f, sk)) => {
                let base = want_kinds.len() - optional;
                let extra = total.saturating_sub(base);
                if total < base || extra > optional || s != ok + extra || f != failed || sk != skipped || s + f + sk != total {
                    res.findings.push(Finding::new("C20", "summary-adds-up", format!("{}: {} testcase(s): {ok} succeeded, {failed} failed and {skipped} skipped", describe(), want_kinds.len()), format!("{total} testcase(s): {s} succeeded, {f} failed and {sk} skipped")));
                }
            }
            None => res.findings.push(Finding::new("C20", "summary-adds-up", format!("{}: a summary line", describe()), format!("{:?}", run2.stdout_str().lines().last()))),
        }
        if run2.status != Some(want_status) {
            res.findings.push(Finding::new("C20", "exit-status", format!("{} (pretty renderer): {want_status}", describe()), format!("{:?}", run2.status)));
        }
    }
    res
}

fn check_error_class(case: &CliCase, kind: u8, with_good_doc: bool) -> CaseResult {
    let mut res = CaseResult::default();
    res.nontrivial.push(("C20", hash64(case)));
    let sb = Sandbox::new();
    let good = Doc::new("good.md", false, vec![B::Pass]);
    sb.write(&good.name, good.text(&|_| String::new()).as_bytes());
    let mut args: Vec<String> = vec!["test".into(), "--no-color".into(), "-r".into(), "json".into()];
    if with_good_doc {
        args.push("good.md".into());
    }
    match kind {
        0 => args.push("missing.md".into()),
        1 => {
            sb.write("binary.md", b"# T\n\n```scrut\n$ echo \xff\xfe\n```\n");
            args.push("binary.md".into());
        }
        2 => {
            sb.write("broken.md", b"# T\n\n```scrut\nexpectation without command\n```\n");
            args.push("broken.md".into());
        }
        _ => {
            if !with_good_doc {
                args.push("good.md".into());
            }
            args.push("--shell".into());
            args.push("/nonexistent/shell".into());
        }
    }
    let refs: Vec<&str> = args.iter().map(|s| s.as_str()).collect();
    let run = run_scrut(&sb, &refs, &env_for(&sb), Duration::from_secs(60));
    res.outcome.push(("C20", hash64(&("error", kind, run.status))));
    if run.status != Some(1) {
        res.findings.push(Finding::new("C20", "exit-status", format!("error class {kind} (0 missing path, 1 invalid UTF-8, 2 unparsable, 3 shell missing), good doc first={with_good_doc}: exit status 1"), format!("{:?}; stdout {:?}", run.status, run.stdout_str().chars().take(200).collect::<String>())));
    }
    res
}

fn check_env_prepend(case: &CliCase, cram: bool) -> CaseResult {
    let mut res = CaseResult::default();
    res.nontrivial.push(("C18", hash64(case)));
    let sb = Sandbox::new();
    let ext = if cram { "t" } else { "md" };
    let names = [format!("m/main.{ext}"), format!("p/pre.{ext}"), format!("p/post.{ext}")];
    for n in &names {
        let d = Doc::new(n, cram, vec![B::Pass]);
        let id = d.id();
        sb.write(n, d.text(&|_| format!("echo DOC={id} >> \"$VERIF_MARK\"; {ENV_PROBE}")).as_bytes());
    }
    let args = ["test", "--no-color", "-r", "json", names[0].as_str(), "-P", names[1].as_str(), "-A", names[2].as_str()];
    let run = run_scrut(&sb, &args, &env_for(&sb), Duration::from_secs(60));
    let mark = std::fs::read_to_string(sb.scratch.path().join("mark")).unwrap_or_default();
    let blocks: Vec<BTreeMap<String, String>> = mark
        .split("END\n")
        .filter(|b| !b.trim().is_empty())
        .map(|b| b.lines().filter_map(|l| l.split_once('=').map(|(k, v)| (k.to_string(), v.to_string()))).collect())
        .collect();
    res.outcome.push(("C18", hash64(&("prepend-env", cram, blocks.len(), run.status))));
    let describe = || format!("{} main document with one prepended and one appended document (-P / -A), one test case each", if cram { "cram" } else { "markdown" });
    if run.status != Some(0) || blocks.len() != 3 {
        res.findings.push(Finding::new("C18", "documented-environment", format!("{}: three test cases run, exit status 0", describe()), format!("{} test cases recorded, status {:?}; stderr {}", blocks.len(), run.status, run.stderr_str().lines().last().unwrap_or(""))));
        return res;
    }
    let main = blocks.iter().find(|b| b.get("DOC").map(|d| d.contains("main")).unwrap_or(false)).cloned().unwrap_or_default();
    let caller_tmp = sb.tmpdir.to_string_lossy().to_string();
    for b in &blocks {
        for v in ["TESTDIR", "TESTFILE", "TESTSHELL", "TMPDIR", "LANG", "LANGUAGE", "LC_ALL", "TZ", "COLUMNS", "CDPATH", "GREP_OPTIONS"] {
            let got = b.get(v).cloned().unwrap_or_else(|| "<missing>".into());
            let want = main.get(v).cloned().unwrap_or_else(|| "<missing>".into());
            if got != want || got == "<unset>" || (v == "TMPDIR" && got == caller_tmp) {
                res.findings.push(Finding::new("C18", "documented-environment", format!("{}: test case of {} sees {v}={want} (the value of the run, as the main document's test case does)", describe(), b.get("DOC").cloned().unwrap_or_default()), format!("{v}={got}")));
                return res;
            }
        }
    }
    res
}

fn check_env(case: &CliCase, classes: &[u8], crams: &[bool], same_names: bool, flag: u8, tamper: bool) -> CaseResult {
    let mut res = CaseResult::default();
    let sb = Sandbox::new();
    let n = classes.len();
    if n > 1 || classes.iter().any(|c| *c != 0) || flag != 0 {
        res.nontrivial.push(("C18", hash64(case)));
    }
    let mut docs: Vec<Doc> = vec![];
    let mut raw: Vec<(String, Vec<u8>)> = vec![];
    for (k, (c, cram)) in classes.iter().zip(crams.iter()).enumerate() {
        let ext = if *cram { "t" } else { "md" };
        let name = if same_names { format!("dir{k}/same.{ext}") } else { format!("dir{k}/doc{k}.{ext}") };
        let tests = match c {
            0 => vec![B::Pass, B::Pass],
            1 => vec![B::Pass, B::FailOutput],
            2 => vec![B::Pass, B::Timeout, B::Pass],
            3 => vec![B::Pass, B::Exit { code: 80, expected: false }],
            5 => vec![B::Pass, B::ScriptExit { code: 3 }, B::Pass],
            7 => vec![B::Pass, B::TimeoutImmune, B::Pass],
            _ => vec![B::Pass],
        };
        if *c == 4 {
            raw.push((name, if *cram { b"Title\n  expectation without command\n\n".to_vec() } else { b"# T\n\n```scrut\nno command here\n```\n".to_vec() }));
            continue;
        }
        docs.push(Doc::new(&name, *cram, tests));
    }
    let probe = |i: usize| -> String {
        if tamper && i == 0 {
            format!("{ENV_PROBE}; export TESTDIR=/bogus TESTFILE=bogus TESTSHELL=bogus LANG=de_DE COLUMNS=1; unset TMPDIR")
        } else {
            ENV_PROBE.to_string()
        }
    };
    let mut order: Vec<String> = vec![];
    // keep command line order = class order
    let mut di = 0;
    let mut ri = 0;
    for c in classes {
        if *c == 4 {
            sb.write(&raw[ri].0, &raw[ri].1);
            order.push(raw[ri].0.clone());
            ri += 1;
        } else {
            let id = docs[di].name.clone();
            sb.write(&docs[di].name, docs[di].text(&|i| format!("echo DOC={id} >> \"$VERIF_MARK\"; {}", probe(i))).as_bytes());
            order.push(docs[di].name.clone());
            di += 1;
        }
    }
    let workdir = sb.scratch.sub("user w\u{f6}rk dir");
    std::fs::write(workdir.join("precious.txt"), b"keep me").ok();
    let mut args: Vec<String> = vec!["test".into(), "--no-color".into(), "-r".into(), "json".into()];
    match flag {
        1 => {
            args.push("--work-directory".into());
            args.push(workdir.to_string_lossy().to_string());
        }
        2 => args.push("--keep-temporary-directories".into()),
        3 => {
            // a path that does not exist: whatever scrut does with it, nothing it creates may remain
            args.push("--work-directory".into());
            args.push(sb.scratch.path().join("missing w\u{f6}rk dir/nested/work").to_string_lossy().to_string());
        }
        _ => {}
    }
    if classes.contains(&6) {
        let fake = sb.write("notashell", b"not executable");
        args.push("--shell".into());
        args.push(fake.to_string_lossy().to_string());
    }
    args.extend(order.clone());
    let refs: Vec<&str> = args.iter().map(|s| s.as_str()).collect();
    // a timed out shell that ignores SIGTERM ends by itself 2 s after it started: look at the directories after that
    let linger = classes.contains(&7);
    let run = run_scrut_observed(&sb, &refs, &env_for(&sb), Duration::from_secs(90), &mut || {
        if linger {
            std::thread::sleep(Duration::from_millis(2600));
        }
    });
    let describe = || format!("classes {classes:?} (0 ok,1 validation failure,2 timeout,3 skip,4 parse error,5 script exit,6 shell not executable,7 timeout of a shell that ignores SIGTERM) cram {crams:?} same_names={same_names} flag={flag} (1 --work-directory, 2 --keep-temporary-directories, 3 --work-directory with a path that does not exist) tamper={tamper}");
    if run.timed_out {
        res.findings.push(Finding::new("C18", "run-terminates", describe(), "no exit within 90 s".to_string()));
        return res;
    }
    if flag == 3 {
        let root = sb.scratch.path().join("missing w\u{f6}rk dir");
        res.outcome.push(("C18", hash64(&(classes, flag, root.exists(), run.status))));
        if root.exists() {
            res.findings.push(Finding::new("C18", "no-directory-remains", format!("{}: --work-directory names a path that does not exist; nothing of it exists after exit (status {:?})", describe(), run.status), "the directory and its parents were created and left behind".to_string()));
        }
        let left = sb.tmp_entries();
        if !left.is_empty() {
            res.findings.push(Finding::new("C18", "no-directory-remains", format!("{}: TMPDIR empty after exit (status {:?})", describe(), run.status), format!("{left:?}")));
        }
        return res;
    }
    // ---- clean-up
    let left = sb.tmp_entries();
    res.outcome.push(("C18", hash64(&(classes, flag, left.len().min(5), run.status))));
    match flag {
        2 => {
            // kept directories only: execution.* and temp.* pairs, at most one pair per executed document
            if left.iter().any(|e| !(e.starts_with("execution.") || e.starts_with("temp."))) {
                res.findings.push(Finding::new("C18", "only-kept-directories-remain", format!("{}: only execution.* / temp.* in TMPDIR", describe()), format!("{left:?}")));
            }
        }
        _ => {
            if !left.is_empty() {
                res.findings.push(Finding::new("C18", "no-directory-remains", format!("{}: TMPDIR empty after exit (status {:?})", describe(), run.status), format!("{left:?}")));
            }
        }
    }
    if flag == 1 {
        let mut entries: Vec<String> = std::fs::read_dir(&workdir).map(|r| r.filter_map(|e| e.ok()).map(|e| e.file_name().to_string_lossy().to_string()).collect()).unwrap_or_default();
        entries.sort();
        if !entries.contains(&"precious.txt".to_string()) {
            res.findings.push(Finding::new("C18", "work-directory-kept", format!("{}: the given work directory and its content are kept", describe()), format!("{entries:?}")));
        }
        if entries.iter().any(|e| e.starts_with("temp.")) {
            res.findings.push(Finding::new("C18", "temporary-directory-inside-work-directory-removed", format!("{}: no temp.* left in the work directory", describe()), format!("{entries:?}")));
        } else if entries != vec!["precious.txt".to_string()] {
            // the test cases of these scenarios create no files: anything else was created by scrut
            res.findings.push(Finding::new("C18", "nothing-else-created-in-work-directory", format!("{}: the work directory holds only what the user put there", describe()), format!("{entries:?}")));
        }
    }
    // ---- environment of every executed test case
    let mark = std::fs::read_to_string(sb.scratch.path().join("mark")).unwrap_or_default();
    let blocks: Vec<BTreeMap<String, String>> = mark
        .split("END\n")
        .filter(|b| !b.trim().is_empty())
        .map(|b| b.lines().filter_map(|l| l.split_once('=').map(|(k, v)| (k.to_string(), v.to_string())).or_else(|| Some((l.to_string(), String::new())))).collect())
        .collect();
    // group by document
    let parse_error = classes.contains(&4);
    if parse_error {
        if !blocks.is_empty() {
            res.findings.push(Finding::new("C18", "nothing-runs-when-a-document-does-not-parse", describe(), format!("{} test cases executed", blocks.len())));
        }
        return res;
    }
    let mut pwds: BTreeMap<String, Vec<String>> = BTreeMap::new();
    for b in &blocks {
        let testfile = b.get("TESTFILE").cloned().unwrap_or_default();
        let testdir = b.get("TESTDIR").cloned().unwrap_or_default();
        let docname = b.get("DOC").cloned().unwrap_or_default();
        pwds.entry(docname.clone()).or_default().push(b.get("PWD").cloned().unwrap_or_default());
        let Some(doc) = docs.iter().find(|d| d.name == docname) else {
            machinery_failure(&format!("marker block without document id: {b:?}"));
        };
        let full = sb.docs.join(&doc.name);
        let (want_dir, want_file) = (full.parent().unwrap().to_string_lossy().to_string(), full.file_name().unwrap().to_string_lossy().to_string());
        if testdir != want_dir || testfile != want_file {
            res.findings.push(Finding::new("C18", if tamper { "environment-set-afresh-for-every-test-case" } else { "documented-environment" }, format!("{}: TESTDIR={want_dir} TESTFILE={want_file} in every test case of {}", describe(), doc.name), format!("TESTDIR={testdir} TESTFILE={testfile}")).tag(if doc.cram { "cram" } else { "markdown" }));
        }
        let tmp = b.get("TMPDIR").cloned().unwrap_or_default();
        let mut want: Vec<(&str, String)> = vec![
            ("TESTSHELL", "/usr/bin/bash".into()),
            ("SHELL", "/usr/bin/bash".into()),
            ("LANG", "C".into()),
            ("LANGUAGE", "C".into()),
            ("LC_ALL", "C".into()),
            ("TZ", "GMT".into()),
            ("COLUMNS", "80".into()),
            ("CDPATH", "".into()),
            ("GREP_OPTIONS", "".into()),
        ];
        if doc.cram {
            want.push(("TMP", tmp.clone()));
            want.push(("TEMP", tmp.clone()));
        }
        for (k, v) in want {
            if b.get(k) != Some(&v) {
                res.findings.push(Finding::new("C18", if tamper { "environment-set-afresh-for-every-test-case" } else { "documented-environment" }, format!("{}: {k}={v} in every test case of {}", describe(), doc.name), format!("{k}={:?}", b.get(k))).tag(if doc.cram { "cram" } else { "markdown" }));
            }
        }
        if !b.contains_key("TMPDIR_IS_DIR") || tmp == "<unset>" {
            res.findings.push(Finding::new("C18", if tamper { "environment-set-afresh-for-every-test-case" } else { "documented-environment" }, format!("{}: TMPDIR names an existing directory in every test case", describe()), format!("TMPDIR={tmp}")).tag(if doc.cram { "cram" } else { "markdown" }));
        }
        if !doc.cram {
            let st = b.get("SCRUT_TEST").cloned().unwrap_or_default();
            if !st.starts_with(&format!("{}:", doc.name)) {
                res.findings.push(Finding::new("C18", "documented-environment", format!("{}: SCRUT_TEST={}:<line>", describe(), doc.name), st));
            }
        }
    }
    // one working directory per document, not shared (unless --work-directory)
    let mut seen: BTreeMap<String, String> = BTreeMap::new();
    for (docname, p) in &pwds {
        let mut u = p.clone();
        u.dedup();
        if u.len() != 1 {
            res.findings.push(Finding::new("C18", "one-work-directory-per-document", format!("{}: all test cases of {docname} run in one directory", describe()), format!("{p:?}")));
        }
        if flag != 1 {
            if let Some(other) = seen.insert(u[0].clone(), docname.clone()) {
                res.findings.push(Finding::new("C18", "work-directory-not-shared", format!("{}: {docname} and {other} have different work directories", describe()), format!("both run in {}", u[0])));
            }
            if flag == 0 && !u[0].starts_with(&sb.tmpdir.to_string_lossy().to_string()) {
                res.findings.push(Finding::new("C18", "work-directory-is-temporary", format!("{}: work directory below TMPDIR", describe()), u[0].clone()));
            }
        } else if u[0] != workdir.to_string_lossy() {
            res.findings.push(Finding::new("C18", "given-work-directory-used", format!("{}: {}", describe(), workdir.display()), u[0].clone()));
        }
    }
    res
}

fn check_concurrent(case: &CliCase, k: usize, _round: usize) -> CaseResult {
    let mut res = CaseResult::default();
    res.nontrivial.push(("C18", hash64(case)));
    res.counters.push(("concurrent_rounds", 1));
    let sb = Sandbox::new();
    let doc = Doc::new("c/doc.md", false, vec![B::Pass, B::Pass]);
    sb.write(&doc.name, doc.text(&|_| ENV_PROBE.to_string()).as_bytes());
    let args = ["test", "--no-color", "-r", "json", "c/doc.md"];
    let env = env_for(&sb);
    let runs: Vec<CliRun> = std::thread::scope(|s| {
        let hs: Vec<_> = (0..k).map(|_| s.spawn(|| run_scrut(&sb, &args, &env, Duration::from_secs(60)))).collect();
        hs.into_iter().map(|h| h.join().unwrap()).collect()
    });
    let left = sb.tmp_entries();
    res.outcome.push(("C18", hash64(&("concurrent", left.len()))));
    if runs.iter().any(|r| r.status != Some(0)) || !left.is_empty() {
        res.findings.push(Finding::new("C18", "concurrent-processes-clean-up", format!("{k} scrut processes at once: all exit 0 and TMPDIR is empty afterwards"), format!("statuses {:?}, left {left:?}", runs.iter().map(|r| r.status).collect::<Vec<_>>())));
    }
    let mark = std::fs::read_to_string(sb.scratch.path().join("mark")).unwrap_or_default();
    let mut pwds: Vec<&str> = mark.lines().filter_map(|l| l.strip_prefix("PWD=")).collect();
    let total = pwds.len();
    pwds.sort();
    pwds.dedup();
    if total != 2 * k || pwds.len() != k {
        res.findings.push(Finding::new("C18", "work-directory-not-shared", format!("{k} processes x 2 test cases use {k} distinct work directories"), format!("{total} test cases in {} directories", pwds.len())));
    }
    res
}
