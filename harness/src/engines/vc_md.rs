//! C06: Markdown documents -- every scrut block becomes exactly one test; nothing is dropped.

use std::sync::Arc;

use scrut::config::{DocumentConfig, TestCaseConfig};
use scrut::expectation::ExpectationMaker;
use scrut::parsers::markdown::MarkdownParser;
use scrut::parsers::parser::Parser;
use scrut::rules::registry::RuleRegistry;
use scrut::testcase::TestCase;
use serde::{Deserialize, Serialize};

use crate::core::*;
use crate::refmodel::mdtok::*;

pub struct VcMd;

pub const LINE_KINDS: [&str; 33] = [
    // non-ASCII text in every line role (heading, prose, command, expectation)
    "# \u{65e5}\u{672c}",
    "\u{e9}t\u{e9} prose",
    "$ \u{e9}cho",
    "\u{e9} out",
    "",
    "Para",
    "# Head",
    "text with `inline` code",
    "``two`` ticks at start",
    "```three``` then text",
    "---",
    "defaults: {keep_crlf: true}",
    "```scrut",
    "````scrut",
    "```scrut {timeout: 3s}",
    "```scrut {timeout: 3s} ",
    "```scrut { }",
    "```scrut {timeout: 3s",
    "```scrut {timeout: 3s} words",
    "## Sub head",
    "```bash",
    "````",
    "```",
    "# comment",
    "$ cmd",
    "> cont",
    "out",
    "[2]",
    "$ second",
    "```€ {x}",
    "```scrut ",
    "out* (glob+)",
    "  indented out",
];

/// segments of the second family (each a list of lines)
pub fn segments() -> Vec<Vec<String>> {
    let s = |v: &[&str]| v.iter().map(|x| x.to_string()).collect::<Vec<_>>();
    let mut segs = vec![
        s(&["Para"]),
        s(&["# Head", ""]),
        s(&["text with `inline` code", ""]),
        s(&["``two`` ticks at start"]),
        s(&["```three``` then text"]),
        s(&[""]),
        s(&["---", "defaults: {keep_crlf: true}", "---"]),
        s(&["---", "---"]),
        s(&["```bash", "$ not a test", "```"]),
        s(&["````markdown", "```scrut", "$ inner", "```", "````"]),
        // a title glued on top of its block (no blank line on either side): title state must not leak from block to block
        s(&["Title A", "```scrut", "$ cmd", "```"]),
        s(&["# Other title", "```scrut", "$ cmd", "out", "```"]),
        // an expectation that looks like a continuation line (fine as long as another expectation line precedes it), and an
        // exit code line that is not the last line of its block
        s(&["```scrut", "$ cmd", "gone", "> x", "```"]),
        s(&["```scrut", "$ cmd", "[3]", "> x", "```"]),
        // a title glued to the closing fence of a foreign block that is itself glued to a paragraph
        s(&["Intro", "```bash", "x", "```", "Real title", "```scrut", "$ cmd", "```"]),
        // a heading directly under a heading, a heading directly under a paragraph line, a paragraph line directly under a heading
        s(&["# H1", "## H2", "```scrut", "$ cmd", "```"]),
        s(&["Intro line", "# Head", "", "```scrut", "$ cmd", "```"]),
        s(&["# Head", "Paragraph below", "", "```scrut", "$ cmd", "```"]),
        // blanks after the configuration; a configuration group of blanks
        s(&["```scrut {timeout: 3s} ", "$ cmd", "out", "```"]),
        s(&["```scrut { }", "$ cmd", "out", "```"]),
    ];
    let bodies: Vec<Vec<&str>> = vec![
        vec!["$ cmd"],
        vec!["# c", "$ cmd", "out"],
        vec!["$ cmd", "> cont", "out", "[2]"],
        vec!["$ cmd", "out", "out* (glob+)", "", "last"],
        vec![],
        vec!["# only comment"],
        vec!["$ cmd", "``two"],
        vec!["[7]"],
        vec!["$ cmd", "out", "[0]"],
        // multi-line command with an empty continuation line (e.g. a blank line inside a here-document)
        vec!["$ cat <<EOF", "> ", "> EOF", "out"],
        // a command line without any command text
        vec!["$ ", "out"],
    ];
    for b in &bodies {
        for ticks in [3usize, 4] {
            for cfg in ["", " {timeout: 3s}"] {
                let mut seg = vec![format!("{}scrut{cfg}", "`".repeat(ticks))];
                seg.extend(b.iter().map(|x| x.to_string()));
                if ticks == 4 && b.len() == 2 && b[1] == "``two" {
                    seg.push("```".into()); // nested shorter fence line inside a 4-tick block
                }
                seg.push("`".repeat(ticks));
                segs.push(seg);
            }
        }
    }
    segs
}

#[derive(Clone, Debug, Serialize, Deserialize, Hash)]
pub enum MdCase {
    Lines { kinds: Vec<usize>, crlf: bool, final_newline: bool },
    /// segment indices; document truncated to its first `keep` lines
    Segs { segs: Vec<usize>, keep: usize, crlf: bool },
    /// free text (used by replays / fixed cases)
    Text { text: String },
}

impl MdCase {
    pub fn text(&self) -> String {
        match self {
            MdCase::Lines { kinds, crlf, final_newline } => {
                let nl = if *crlf { "\r\n" } else { "\n" };
                let mut t = kinds.iter().map(|k| LINE_KINDS[*k]).collect::<Vec<_>>().join(nl);
                if *final_newline && !kinds.is_empty() {
                    t.push_str(nl);
                }
                t
            }
            MdCase::Segs { segs, keep, crlf } => {
                let all = segments();
                let lines: Vec<String> = segs.iter().flat_map(|s| all[*s].clone()).take(*keep).collect();
                let nl = if *crlf { "\r\n" } else { "\n" };
                let mut t = lines.join(nl);
                if !lines.is_empty() {
                    t.push_str(nl);
                }
                t
            }
            MdCase::Text { text } => text.clone(),
        }
    }
}

thread_local! {
    static MD: MarkdownParser = MarkdownParser::new(Arc::new(ExpectationMaker::new(RuleRegistry::default())), &["scrut"], None);
}

fn expected_config(inline: &Option<String>, fm: &Option<DocumentConfig>) -> Option<TestCaseConfig> {
    let inline_cfg: TestCaseConfig = match inline {
        Some(text) => serde_yaml::from_str(&format!("{{{text}}}")).ok()?,
        None => TestCaseConfig::empty(),
    };
    let defaults = fm.as_ref().map(|d| d.defaults.clone()).unwrap_or_else(TestCaseConfig::empty);
    // highest precedence first: inline, document defaults, format default (C16's oracle, done by hand)
    let base = TestCaseConfig::default_markdown();
    let pick = |a: &TestCaseConfig, b: &TestCaseConfig| -> TestCaseConfig {
        let mut env = b.environment.clone();
        env.extend(a.environment.clone());
        TestCaseConfig {
            detached: a.detached.or(b.detached),
            environment: env,
            keep_crlf: a.keep_crlf.or(b.keep_crlf),
            output_stream: a.output_stream.clone().or(b.output_stream.clone()),
            skip_document_code: a.skip_document_code.or(b.skip_document_code),
            strip_ansi_escaping: a.strip_ansi_escaping.or(b.strip_ansi_escaping),
            timeout: a.timeout.or(b.timeout),
            wait: a.wait.clone().or(b.wait.clone()),
        }
    };
    Some(pick(&pick(&inline_cfg, &defaults), &base))
}

/// compare one parsed test with the reference; returns (clause, expected, observed)
fn compare_test(i: usize, got: &TestCase, want: &RefTest, fm: &Option<DocumentConfig>) -> Option<(&'static str, String, String)> {
    if got.shell_expression != want.shell_expression {
        return Some(("shell-expression", format!("test {i}: {:?}", want.shell_expression), format!("{:?}", got.shell_expression)));
    }
    let exps: Vec<String> = got.expectations.iter().map(|e| e.original_string()).collect();
    if exps != want.expectations {
        return Some(("expectation-lines", format!("test {i}: {:?}", want.expectations), format!("{exps:?}")));
    }
    if got.exit_code != want.exit_code {
        return Some(("exit-code", format!("test {i}: {:?}", want.exit_code), format!("{:?}", got.exit_code)));
    }
    if got.line_number != want.line_number {
        return Some(("line-number", format!("test {i}: {}", want.line_number), format!("{}", got.line_number)));
    }
    if let Some(cfg) = expected_config(&want.inline_config, fm) {
        if got.config != cfg {
            return Some(("inline-config", format!("test {i}: {cfg}"), format!("{}", got.config)));
        }
    }
    if let Some(t) = &want.title {
        if &got.title != t {
            return Some(("title", format!("test {i}: {t:?}"), format!("{:?}", got.title)));
        }
    }
    None
}

pub fn check_text(text: &str, res: &mut CaseResult) {
    let reference = tokenize(text);
    let parsed = guard(|| MD.with(|p| p.parse(text)).map_err(|e| format!("{e:#}")));
    let mut tags: Vec<&str> = vec![];
    if reference.unterminated.is_some() {
        tags.push("unterminated-construct");
    }
    let push = |res: &mut CaseResult, clause: &str, exp: String, obs: String| {
        if res.findings.len() < 2 {
            let mut f = Finding::new("C06", clause, exp, format!("{obs}; document = {text:?}"));
            for t in &tags {
                f = f.tag(t);
            }
            res.findings.push(f);
        }
    };
    let (dc, tests) = match parsed {
        Err(p) => {
            push(res, "no-crash", "Ok or Err".into(), format!("panic: {p}"));
            res.outcome.push(("C06", hash64(&"panic")));
            return;
        }
        Ok(Err(_)) => {
            // an error is always acceptable; make regressions visible through counters
            res.counters.push(("rejected", 1));
            if reference.unspecified.is_none() && reference.unterminated.is_none() && !reference.has_bare_fence {
                res.counters.push(("rejected_although_well_formed", 1));
            }
            res.outcome.push(("C06", hash64(&"err")));
            return;
        }
        Ok(Ok(x)) => x,
    };
    res.outcome.push(("C06", hash64(&("ok", tests.len(), reference.unterminated.is_some(), reference.unspecified.is_some()))));
    if reference.malformed_config && reference.unspecified.is_none() {
        // text behind `scrut` on the fence line that is not one {...} group: accepting the document means that what is
        // written there was silently ignored
        let mut f = Finding::new("C06", "inline-config", "a document whose fence line carries a malformed configuration is rejected".to_string(), format!("accepted with {} test(s); document = {text:?}", tests.len()));
        f.tags = vec![];
        res.findings.push(f);
        return;
    }
    if reference.unspecified == Some(ORPHANS) {
        // lines before the `$` line: accepted documents are compared with the reference, which drops those lines
        res.counters.push(("documents_with_lines_before_the_command_compared", 1));
    } else if reference.unspecified.is_some() {
        res.counters.push(("unspecified_documents", 1));
        return;
    }
    // front-matter
    let fm: Option<DocumentConfig> = match &reference.front_matter {
        None => None,
        Some(lines) => {
            let joined = lines.join("\n");
            match serde_yaml::from_str::<DocumentConfig>(&joined) {
                Ok(c) => Some(c),
                Err(_) => {
                    push(res, "front-matter-config", "Err (front-matter is not a document configuration)".into(), format!("Ok with {} tests", tests.len()));
                    return;
                }
            }
        }
    };
    let mut want = reference.tests.clone();
    match &reference.unterminated {
        None => {}
        Some(Unterminated::FrontMatter { rest }) => {
            // acceptable: Err, or read to the end as configuration
            let cfg = serde_yaml::from_str::<DocumentConfig>(&rest.join("\n")).ok();
            let ok = tests.is_empty() && cfg.map(|c| DocumentConfig::default_markdown().with_overrides_from(&c) == dc).unwrap_or(false);
            if !ok {
                push(res, "unterminated-front-matter-reported-or-read-to-end", "Err, or the rest of the document read as configuration".into(), format!("Ok with {} tests and config {dc}", tests.len()));
            }
            return;
        }
        Some(Unterminated::ScrutFence { body }) => match body {
            Body::Test { cmd, expectations, exit_code, dollar_index } => {
                // find the inline config of the last block
                let cfg = reference.blocks.last().and_then(|b| b.1.clone());
                want.push(RefTest { title: None, shell_expression: cmd.join("\n"), expectations: expectations.clone(), exit_code: *exit_code, inline_config: cfg, line_number: *dollar_index });
            }
            Body::NoTest => {}
            Body::Unspecified(_) => return,
        },
        Some(Unterminated::OtherFence) => {}
    }
    if let Some(f) = &fm {
        let want_dc = DocumentConfig::default_markdown().with_overrides_from(f);
        if dc.defaults != want_dc.defaults || dc.total_timeout != want_dc.total_timeout {
            push(res, "front-matter-config", format!("{want_dc}"), format!("{dc}"));
        }
    }
    if tests.len() != want.len() {
        let clause = if reference.unterminated.is_some() { "unterminated-fence-reported-or-read-to-end" } else { "one-test-per-scrut-block" };
        push(
            res,
            clause,
            format!("{} test(s): {:?}", want.len(), want.iter().map(|t| t.shell_expression.clone()).collect::<Vec<_>>()),
            format!("{} test(s): {:?}", tests.len(), tests.iter().map(|t| t.shell_expression.clone()).collect::<Vec<_>>()),
        );
        return;
    }
    for (i, (g, w)) in tests.iter().zip(want.iter()).enumerate() {
        if let Some((clause, e, o)) = compare_test(i, g, w, &fm) {
            push(res, clause, e, o);
            return;
        }
    }
}

impl Engine for VcMd {
    type Case = MdCase;
    fn name(&self) -> &'static str {
        "vc_md"
    }
    fn properties(&self) -> Vec<&'static str> {
        vec!["C06"]
    }
    fn hang_is_violation(&self) -> Vec<&'static str> {
        vec!["C06"]
    }
    fn chunk(&self) -> usize {
        128
    }
    fn cases(&self, tier: Tier) -> Box<dyn Iterator<Item = MdCase> + Send + '_> {
        let (d, s) = match tier {
            Tier::Quick => (4, 2),
            Tier::Thorough => (5, 3),
        };
        let nk = LINE_KINDS.len();
        let lines = words_upto(nk, d).flat_map(move |kinds| {
            let full = kinds.len() == d;
            // CRLF and missing final newline variants on all documents below the maximum depth
            let variants: Vec<(bool, bool)> = if full { vec![(false, true)] } else { vec![(false, true), (true, true), (false, false)] };
            variants.into_iter().map(move |(crlf, final_newline)| MdCase::Lines { kinds: kinds.clone(), crlf, final_newline })
        });
        let all = segments();
        let nseg = all.len();
        let lens: Vec<usize> = all.iter().map(|s| s.len()).collect();
        let segs = words_upto(nseg, s).flat_map(move |segs| {
            let total: usize = segs.iter().map(|i| lens[*i]).sum();
            let first_of_last = total - segs.last().map(|i| lens[*i]).unwrap_or(0);
            // every truncation that cuts into the last segment (shorter prefixes are other cases), plus the full document
            (first_of_last + 1..=total).flat_map(move |keep| {
                let segs = segs.clone();
                [false, true].into_iter().map(move |crlf| MdCase::Segs { segs: segs.clone(), keep, crlf })
            })
        });
        Box::new(lines.chain(segs))
    }
    fn bound(&self, tier: Tier) -> String {
        let (d, s) = match tier {
            Tier::Quick => (4, 2),
            Tier::Thorough => (5, 3),
        };
        format!(
            "(1) all line sequences of length <= {d} over {} line kinds (LF; CRLF and missing final newline below the maximum length); (2) all sequences of <= {s} segments over {} segments (prose runs, front-matter, verbatim blocks, scrut blocks of 11 body shapes x 3/4-tick fences x with/without config) with every line-prefix truncation, LF and CRLF",
            LINE_KINDS.len(),
            segments().len()
        )
    }
    fn rule(&self, _p: &str) -> String {
        "documents are distinct words over the alphabets by construction; non-trivial = the document contains at least one fence line (>= 3 backticks at column 0) or a front-matter marker; outcome = (Ok/Err/panic, number of tests, unterminated?, unspecified?)".into()
    }
    fn assumptions(&self, _p: &str) -> Vec<String> {
        vec![
            "reference tokenizer written from the documentation: fences open at column 0 with >= 3 backticks and a backtick-free info string and close at a line of at least as many backticks; constructs the documentation does not define (indented or ~~~ fences, a line starting with a fence-length backtick run inside a block, two exit codes, a second front-matter) only have to not crash and are counted as unspecified; expectation or exit code lines before the `$` line of a block belong to no test: the document is rejected or they are dropped".into(),
            "Err is always an acceptable result (the property says so); documents rejected although well-formed are counted in the evidence".into(),
            "titles are compared only when the nearest preceding prose is unambiguously a heading/paragraph".into(),
        ]
    }
    fn check(&self, case: &MdCase) -> CaseResult {
        let mut res = CaseResult::default();
        let text = case.text();
        check_text(&text, &mut res);
        if text.lines().any(|l| l.starts_with("```") || l == "---") {
            res.nontrivial.push(("C06", hash64(&text)));
        }
        res
    }
    fn size(&self, case: &MdCase) -> usize {
        case.text().len()
    }
}
