//! C04: each expectation kind matches exactly what the documentation says.
//! Exhaustive (expression x line) enumeration per rule kind through
//! `ExpectationMaker::parse(..).matches(..)` against independent reference matchers.

use scrut::expectation::ExpectationMaker;
use scrut::rules::glob_cram::CramGlobRule;
use scrut::rules::registry::RuleRegistry;
use scrut::rules::rule::RuleMaker;
use serde::{Deserialize, Serialize};

use crate::core::*;
use crate::refmodel::rules::*;

pub struct VcRules;

#[derive(Clone, Debug, Serialize, Deserialize, Hash)]
pub enum RuleCase {
    /// kind is "equal", "eq", "" (implicit) or "no-eol"
    Equal { expr: String, kind: String },
    Escaped { expr: String, kind: String },
    Glob { pattern: String, cram: bool },
    /// default registry only: patterns over the backslash alphabet
    GlobBackslash { pattern: String },
    Regex { ast: Ast },
    /// documented examples and misuse forms: expression, [(line, expected)]
    Fixed { text: String, lines: Vec<(String, bool)> },
}

thread_local! {
    static DEFAULT: ExpectationMaker = ExpectationMaker::new(RuleRegistry::default());
    static CRAM: ExpectationMaker = {
        let mut r = RuleRegistry::default();
        r.register(CramGlobRule::make, &["glob", "gl"]);
        ExpectationMaker::new(r)
    };
}

pub fn strings_upto(alphabet: &[&str], n: usize) -> Vec<String> {
    words_upto(alphabet.len(), n).map(|w| w.iter().map(|i| alphabet[*i]).collect::<String>()).collect()
}

const EQ_ALPHA: [&str; 6] = ["a", "b", " ", "é", "*", "\\"];
const ESC_ALPHA: [&str; 11] = ["a", "\\", "t", "x", "0", "1", "4", "e", "é", "F", "7"];
// `.` is a literal in a glob but a metacharacter of the regex the cram-compat glob is translated to
const GLOB_ALPHA: [&str; 6] = ["a", "b", "?", "*", "é", "."];
const GLOB_LINE_ALPHA: [&str; 4] = ["a", "b", "é", "."];
const RE_LINE_ALPHA: [&str; 4] = ["a", "b", "c", "é"];
// backslashes are literal in an (unmarked) glob: patterns and lines with backslash + escape-letter look-alikes and a real TAB
const GLOB_BS_ALPHA: [&str; 6] = ["a", "\\", "t", "x", "*", "?"];
const GLOB_BS_LINE_ALPHA: [&str; 5] = ["a", "\\", "t", "\t", "x"];

fn fixed_cases() -> Vec<RuleCase> {
    let f = |t: &str, l: &[(&str, bool)]| RuleCase::Fixed { text: t.into(), lines: l.iter().map(|(a, b)| (a.to_string(), *b)).collect() };
    vec![
        f("Hello.+ (regex)", &[("Hello You\n", true), ("Hello\n", false), ("xHello You\n", false)]),
        f(".*Hello.* (regex)", &[("Ending in Hello\n", true), ("Hello Start", true), ("Hell\n", false)]),
        f("Foo: [0-9]+ (regex)", &[("Foo: 123\n", true), ("Foo: 12a\n", false), ("xFoo: 1\n", false), ("Foo: 1", true)]),
        f("a{2} (regex)", &[("aa\n", true), ("a\n", false), ("aaa\n", false)]),
        f("a{1,2} (regex)", &[("a\n", true), ("aa\n", true), ("aaa\n", false), ("\n", false)]),
        f("hello{world} (regex)", &[("hello{world}\n", true), ("helloworld\n", false)]),
        f("hello\\{world\\} (regex)", &[("hello{world}\n", true)]),
        // escapes that carry their own braces (the regex syntax the documentation points to)
        f("\\p{L}+ (regex)", &[("h\u{e9}llo\n", true), ("h3llo\n", false)]),
        f("\\P{L}+ (regex)", &[("123\n", true), ("12a\n", false)]),
        f("[\\p{Greek}]+ (regex)", &[("\u{3b1}\u{3b2}\n", true), ("ab\n", false)]),
        f("\\x{68}i (regex)", &[("hi\n", true), ("ho\n", false)]),
        // open-ended counted repetition
        f("a{2,} (regex)", &[("aaa\n", true), ("aa\n", true), ("a\n", false), ("a{2,}\n", false)]),
        f("x\\d{2,}y (regex)", &[("x123y\n", true), ("x1y\n", false)]),
        // unbalanced parentheses must not get out of the whole-line anchoring
        f("a)|(b (regex)", &[("axyz\n", false), ("xyzb\n", false)]),
        // a character class followed by a literal `]`; a nested class (valid regular expressions that scrut's repair of
        // "misused" character classes rewrites)
        f("\\[[0-9]+]: .* (regex)", &[("[123]: hello\n", true), ("123: hello\n", false)]),
        f("[a-z&&[^aeiou]]+ (regex)", &[("bcd\n", true), ("abc\n", false)]),
        // escaped: `\x` and `\0` take hexadecimal / octal digits, not a sign
        f("\\x+f (escaped)", &[("\x0f\n", false)]),
        f("\\x{1F600}! (regex)", &[("\u{1F600}!\n", true)]),
        f("\\u{1F600}{2} (regex)", &[("\u{1F600}\u{1F600}\n", true), ("\u{1F600}\n", false)]),
        f("foo|bar (re)", &[("foo\n", true), ("bar\n", true), ("fooxx\n", false), ("xxbar\n", false), ("foobar\n", false)]),
        f("Hello? (glob)", &[("Hello!\n", true), ("Hello\n", false), ("Hello!!\n", false)]),
        f("*Hello* (glob)", &[("say Hello you\n", true), ("Hello", true), ("Hell\n", false)]),
        f("Hello* (gl)", &[("Hello\n", true), ("xHello\n", false)]),
        f("Hello (eq)", &[("Hello\n", true), ("Hello", false), ("Hello \n", false)]),
        f("Hello (no-eol)", &[("Hello", true), ("Hello\n", false)]),
        f("Foo \\x1b[1mBar\\x1b[0m Baz (escaped)", &[("Foo \x1b[1mBar\x1b[0m Baz\n", true), ("Foo \x1b[1mBar\x1b[0m Baz", true), ("Foo Bar Baz\n", false)]),
        f("foo\\x00bar (esc)", &[("foo\0bar\n", true), ("foobar\n", false)]),
        f("foo\\tbar\\tbaz (escaped)", &[("foo\tbar\tbaz\n", true), ("foo\\tbar\\tbaz\n", false)]),
        f("foo\\t* (escaped) (glob)", &[("foo\tx\n", true), ("foo\t\n", true), ("foox\n", false)]),
    ]
}

impl Engine for VcRules {
    type Case = RuleCase;
    fn name(&self) -> &'static str {
        "vc_rules"
    }
    fn properties(&self) -> Vec<&'static str> {
        vec!["C04"]
    }
    fn chunk(&self) -> usize {
        16
    }
    fn cases(&self, tier: Tier) -> Box<dyn Iterator<Item = RuleCase> + Send + '_> {
        let (eq_n, esc_n, glob_n, re_n) = match tier {
            Tier::Quick => (3, 5, 5, 5),
            Tier::Thorough => (4, 6, 6, 7),
        };
        let mut v: Vec<RuleCase> = fixed_cases();
        for e in strings_upto(&EQ_ALPHA, eq_n) {
            for k in ["", "equal", "eq", "no-eol"] {
                v.push(RuleCase::Equal { expr: e.clone(), kind: k.into() });
            }
        }
        for p in strings_upto(&GLOB_ALPHA, glob_n) {
            v.push(RuleCase::Glob { pattern: p.clone(), cram: false });
            v.push(RuleCase::Glob { pattern: p, cram: true });
        }
        for p in strings_upto(&GLOB_BS_ALPHA, if tier == Tier::Quick { 4 } else { 5 }) {
            if p.contains('\\') {
                v.push(RuleCase::GlobBackslash { pattern: p });
            }
        }
        let mut memo = vec![vec![]];
        for n in 1..=re_n {
            for a in asts_of_size(n, &mut memo) {
                v.push(RuleCase::Regex { ast: a });
            }
        }
        for (i, e) in strings_upto(&ESC_ALPHA, esc_n).into_iter().enumerate() {
            v.push(RuleCase::Escaped { expr: e, kind: if i % 2 == 0 { "escaped".into() } else { "esc".into() } });
        }
        Box::new(v.into_iter())
    }
    fn bound(&self, tier: Tier) -> String {
        let (eq_n, esc_n, glob_n, re_n) = match tier {
            Tier::Quick => (3, 5, 5, 5),
            Tier::Thorough => (4, 6, 6, 7),
        };
        format!(
            "equal/eq/implicit/no-eol: all expressions <= {eq_n} over {EQ_ALPHA:?} x all lines (same strings x 4 endings + invalid UTF-8); escaped: all expressions <= {esc_n} over {ESC_ALPHA:?} x (decoded +-LF, all one-byte mutations); glob (default and cram-compat registry): all patterns <= {glob_n} over {GLOB_ALPHA:?} x all lines <= 4 over {GLOB_LINE_ALPHA:?} +-LF; glob with literal backslashes (default registry): all patterns <= 4/5 over {GLOB_BS_ALPHA:?} containing a backslash x all lines <= 4 over {GLOB_BS_LINE_ALPHA:?}; regex: all ASTs of size <= {re_n} over atoms a,b,.,[ab] and operators concat,|,*,?,+,group rendered with minimal parentheses x all lines <= 3 over {RE_LINE_ALPHA:?} +-LF; plus {} documented examples",
            fixed_cases().len()
        )
    }
    fn rule(&self, _p: &str) -> String {
        "one case = one expression of one kind, evaluated against every candidate line of its family; cases are distinct strings/ASTs by construction; non-trivial = the expression parses and matches at least one and rejects at least one candidate line; outcome = (kind, number of matching lines)".into()
    }
    fn assumptions(&self, _p: &str) -> Vec<String> {
        vec![
            "regex / wildmatch are explored only through scrut's use of them and over these alphabets (L5)".into(),
            "malformed escaped expressions (reference decoder rejects) only need to not crash".into(),
            "CramGlobRule's backslash escapes are outside the property and not compared".into(),
        ]
    }

    fn check(&self, case: &RuleCase) -> CaseResult {
        let mut res = CaseResult::default();
        let key = hash64(case);
        let mut matched = 0usize;
        let mut rejected = 0usize;
        let fail = |clause: &str, exp: String, obs: String, res: &mut CaseResult| {
            if res.findings.len() < 3 {
                res.findings.push(Finding::new("C04", clause, exp, obs));
            }
        };
        let parse = |text: &str, cram: bool| -> Result<Result<scrut::expectation::Expectation, String>, String> {
            guard(|| if cram { CRAM.with(|m| m.parse(text)) } else { DEFAULT.with(|m| m.parse(text)) }.map_err(|e| format!("{e:#}")))
        };
        let kindname;
        match case {
            RuleCase::Equal { expr, kind } => {
                kindname = "equal";
                let text = if kind.is_empty() { expr.clone() } else { format!("{expr} ({kind})") };
                // implicit form: a trailing "(…)" could be a modifier; our alphabet has no parentheses
                let e = match parse(&text, false) {
                    Ok(Ok(e)) => e,
                    Ok(Err(e)) => {
                        fail("equal-parses", "Ok".into(), format!("Err({e}) for `{text}`"), &mut res);
                        return res;
                    }
                    Err(p) => {
                        fail("no-crash", "Ok".into(), format!("panic {p} for `{text}`"), &mut res);
                        return res;
                    }
                };
                let mut lines: Vec<Vec<u8>> = vec![];
                for s in strings_upto(&EQ_ALPHA, 3) {
                    for end in ["", "\n", "\r\n", "\n\n"] {
                        // "\n\n" is not a real line shape; keep only real shapes (at most one LF, at the end)
                        if end == "\n\n" {
                            continue;
                        }
                        lines.push(format!("{s}{end}").into_bytes());
                    }
                }
                lines.push(vec![0xff]);
                lines.push(vec![b'a', 0xff, b'\n']);
                for l in &lines {
                    let want = if kind == "no-eol" { l == expr.as_bytes() } else { *l == format!("{expr}\n").into_bytes() };
                    let got = match guard(|| e.matches(l)) {
                        Ok(g) => g,
                        Err(p) => {
                            fail("no-crash", "bool".into(), format!("panic {p}"), &mut res);
                            return res;
                        }
                    };
                    if got {
                        matched += 1
                    } else {
                        rejected += 1
                    }
                    if got != want {
                        fail(if kind == "no-eol" { "no-eol-exact" } else { "equal-exact" }, format!("`{text}` matches {:?} = {want}", String::from_utf8_lossy(l)), format!("{got}"), &mut res);
                    }
                }
            }
            RuleCase::Escaped { expr, kind } => {
                kindname = "escaped";
                let text = format!("{expr} ({kind})");
                let reference = decode_escaped(expr);
                let parsed = match parse(&text, false) {
                    Ok(p) => p,
                    Err(p) => {
                        fail("no-crash", "Ok or Err".into(), format!("panic {p} for `{text}`"), &mut res);
                        return res;
                    }
                };
                let Some(decoded) = reference else {
                    res.outcome.push(("C04", hash64(&("escaped-malformed", parsed.is_ok()))));
                    return res;
                };
                let e = match parsed {
                    Ok(e) => e,
                    Err(err) => {
                        fail("escaped-parses", format!("`{text}` parses (decodes to {decoded:?})"), format!("Err({err})"), &mut res);
                        return res;
                    }
                };
                let mut lines: Vec<Vec<u8>> = vec![decoded.clone(), [decoded.clone(), b"\n".to_vec()].concat()];
                for i in 0..decoded.len() {
                    for delta in [1u8, 0x20, 0x80] {
                        let mut m = decoded.clone();
                        m[i] ^= delta;
                        lines.push(m.clone());
                        m.push(b'\n');
                        lines.push(m);
                    }
                    let mut d = decoded.clone();
                    d.remove(i);
                    lines.push(d);
                }
                lines.push([decoded.clone(), b"z".to_vec()].concat());
                lines.push([decoded.clone(), b"z\n".to_vec()].concat());
                lines.push(expr.as_bytes().to_vec());
                lines.push(format!("{expr}\n").into_bytes());
                for l in &lines {
                    // only real line shapes: no interior LF
                    if strip_lf(l).contains(&b'\n') {
                        continue;
                    }
                    let want = strip_lf(l) == &decoded[..];
                    let got = match guard(|| e.matches(l)) {
                        Ok(g) => g,
                        Err(p) => {
                            fail("no-crash", "bool".into(), format!("panic {p}"), &mut res);
                            return res;
                        }
                    };
                    if got {
                        matched += 1
                    } else {
                        rejected += 1
                    }
                    if got != want {
                        fail("escaped-exact", format!("`{text}` (decodes to {decoded:?}) matches {l:?} = {want}"), format!("{got}"), &mut res);
                    }
                }
            }
            RuleCase::Glob { pattern, cram } => {
                kindname = if *cram { "glob-cram" } else { "glob" };
                let text = format!("{pattern} (glob)");
                let e = match parse(&text, *cram) {
                    Ok(Ok(e)) => e,
                    Ok(Err(err)) => {
                        fail("glob-parses", "Ok".into(), format!("Err({err}) for `{text}`"), &mut res);
                        return res;
                    }
                    Err(p) => {
                        fail("no-crash", "Ok".into(), format!("panic {p} for `{text}`"), &mut res);
                        return res;
                    }
                };
                let pat: Vec<char> = pattern.chars().collect();
                for s in strings_upto(&GLOB_LINE_ALPHA, 4) {
                    let t: Vec<char> = s.chars().collect();
                    let want = glob_match(&pat, &t);
                    for nl in ["", "\n"] {
                        let l = format!("{s}{nl}").into_bytes();
                        let got = match guard(|| e.matches(&l)) {
                            Ok(g) => g,
                            Err(p) => {
                                fail("no-crash", "bool".into(), format!("panic {p}"), &mut res);
                                return res;
                            }
                        };
                        if got {
                            matched += 1
                        } else {
                            rejected += 1
                        }
                        if got != want {
                            fail(if *cram { "glob-cram-exact" } else { "glob-exact" }, format!("`{text}` matches {:?} = {want}", format!("{s}{nl}")), format!("{got}"), &mut res);
                        }
                    }
                }
            }
            RuleCase::GlobBackslash { pattern } => {
                kindname = "glob-backslash";
                let text = format!("{pattern} (glob)");
                let e = match parse(&text, false) {
                    Ok(Ok(e)) => e,
                    Ok(Err(err)) => {
                        fail("glob-parses", "Ok".into(), format!("Err({err}) for `{text}`"), &mut res);
                        return res;
                    }
                    Err(p) => {
                        fail("no-crash", "Ok".into(), format!("panic {p} for `{text}`"), &mut res);
                        return res;
                    }
                };
                let pat: Vec<char> = pattern.chars().collect();
                for s in strings_upto(&GLOB_BS_LINE_ALPHA, 4) {
                    let t: Vec<char> = s.chars().collect();
                    let want = glob_match(&pat, &t);
                    let l = format!("{s}\n").into_bytes();
                    let got = match guard(|| e.matches(&l)) {
                        Ok(g) => g,
                        Err(p) => {
                            fail("no-crash", "bool".into(), format!("panic {p}"), &mut res);
                            return res;
                        }
                    };
                    if got {
                        matched += 1
                    } else {
                        rejected += 1
                    }
                    if got != want {
                        fail("glob-exact", format!("`{text}` matches {s:?} = {want} (backslashes are literal in a glob)"), format!("{got}"), &mut res);
                    }
                }
            }
            RuleCase::Regex { ast } => {
                kindname = "regex";
                let text = format!("{} (regex)", ast.render());
                let e = match parse(&text, false) {
                    Ok(Ok(e)) => e,
                    Ok(Err(err)) => {
                        fail("regex-parses", "Ok".into(), format!("Err({err}) for `{text}`"), &mut res);
                        return res;
                    }
                    Err(p) => {
                        fail("no-crash", "Ok".into(), format!("panic {p} for `{text}`"), &mut res);
                        return res;
                    }
                };
                for s in strings_upto(&RE_LINE_ALPHA, 3) {
                    let t: Vec<char> = s.chars().collect();
                    let want = ast.full_match(&t);
                    for nl in ["", "\n"] {
                        let l = format!("{s}{nl}").into_bytes();
                        let got = match guard(|| e.matches(&l)) {
                            Ok(g) => g,
                            Err(p) => {
                                fail("no-crash", "bool".into(), format!("panic {p}"), &mut res);
                                return res;
                            }
                        };
                        if got {
                            matched += 1
                        } else {
                            rejected += 1
                        }
                        if got != want {
                            fail("regex-whole-line", format!("`{text}` matches {:?} = {want}", format!("{s}{nl}")), format!("{got}"), &mut res);
                        }
                    }
                }
            }
            RuleCase::Fixed { text, lines } => {
                kindname = "fixed";
                let e = match parse(text, false) {
                    Ok(Ok(e)) => e,
                    Ok(Err(err)) => {
                        // an expression that is not a regular expression by itself may be rejected (and otherwise must not
                        // match more than whole lines)
                        if !(text.starts_with("a)|(b") || text.starts_with("\\x+f")) {
                            fail("documented-example", "parses".into(), format!("Err({err}) for `{text}`"), &mut res);
                        }
                        return res;
                    }
                    Err(p) => {
                        fail("no-crash", "Ok".into(), format!("panic {p} for `{text}`"), &mut res);
                        return res;
                    }
                };
                for (l, want) in lines {
                    let got = guard(|| e.matches(l.as_bytes())).unwrap_or(!*want);
                    if got {
                        matched += 1
                    } else {
                        rejected += 1
                    }
                    if got != *want {
                        fail("documented-example", format!("`{text}` matches {l:?} = {want}"), format!("{got}"), &mut res);
                        if text.starts_with("\\[[0-9]+]") || text.starts_with("[a-z&&") {
                            if let Some(f) = res.findings.last_mut() {
                                f.tags.push("character-class-repair".into());
                            }
                        }
                    }
                }
            }
        }
        if matched > 0 && rejected > 0 {
            res.nontrivial.push(("C04", key));
        }
        res.outcome.push(("C04", hash64(&(kindname, matched))));
        res
    }
    fn size(&self, case: &RuleCase) -> usize {
        match case {
            RuleCase::Equal { expr, .. } => expr.chars().count(),
            RuleCase::Escaped { expr, .. } => expr.chars().count(),
            RuleCase::Glob { pattern, .. } => pattern.chars().count(),
            RuleCase::GlobBackslash { pattern } => pattern.chars().count(),
            RuleCase::Regex { ast } => ast.size(),
            RuleCase::Fixed { .. } => 0,
        }
    }
}
