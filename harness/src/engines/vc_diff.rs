//! C01 / C02 / C03: exhaustive (match matrix x quantifier vector) exploration of
//! `DiffTool::diff` and `TestCase::validate` against the position NFA.

use std::cell::RefCell;
use std::collections::HashMap;
use std::time::Duration;

use scrut::diff::{Diff, DiffLine, DiffTool};
use scrut::expectation::{Expectation, ExpectationMaker};
use scrut::output::{ExitStatus, Output};
use scrut::rules::registry::RuleRegistry;
use scrut::testcase::{TestCase, TestCaseError};
use serde::{Deserialize, Serialize};

use crate::core::*;
use crate::refmodel::nfa::{Model, Quant};

pub struct VcDiff;

#[derive(Clone, Debug, Serialize, Deserialize, Hash)]
pub enum DiffCase {
    /// n expectations (regex alternations realising row masks), m distinct lines
    Matrix { n: usize, m: usize, bits: u64, quants: Vec<Quant> },
    /// expectations from a small word alphabet of all rule kinds, lines over {a, b, empty line, a<CR>, <CR>}
    Words { exps: Vec<(usize, Quant)>, lines: Vec<usize>, last_newline: bool },
    /// the documented non-deterministic example (`foo (*)`, `foo` on two `foo` lines)
    DocumentedNonExample,
}

/// word alphabet of pass 2: expression text and kind suffix
pub const WORD_EXPS: [(&str, &str); 9] = [
    // a line whose content ends in a carriage return (output with CRLF kept), spelled out
    ("a\\r", "escaped"),
    // the expectation of an empty line
    ("", ""),
    ("a", ""),
    ("b", ""),
    ("a", "no-eol"),
    ("?", "glob"),
    ("a", "escaped"),
    ("b|c", "regex"),
    ("*", "glob"),
];
// (with the empty line: output that consists of nothing but line terminators is output, too)
// (a lone CR: the line CR LF, and - as last line without terminator - an output that ends in a bare CR after a line feed)
pub const WORD_LINES: [&str; 5] = ["a", "b", "", "a\r", "\r"];

thread_local! {
    static MAKER: ExpectationMaker = ExpectationMaker::new(RuleRegistry::default());
    static CACHE: RefCell<HashMap<String, Expectation>> = RefCell::new(HashMap::new());
}

pub fn expectation(text: &str) -> Expectation {
    CACHE.with(|c| {
        if let Some(e) = c.borrow().get(text) {
            return e.clone();
        }
        let e = MAKER.with(|m| m.parse(text)).unwrap_or_else(|e| machinery_failure(&format!("harness expectation `{text}` does not parse: {e}")));
        c.borrow_mut().insert(text.to_string(), e.clone());
        e
    })
}

fn exp_text(expr: &str, kind: &str, q: Quant) -> String {
    if kind.is_empty() && q == Quant::One {
        expr.to_string()
    } else {
        format!("{expr} ({kind}{})", q.suffix())
    }
}

impl DiffCase {
    /// (expectation strings, output bytes)
    pub fn realise(&self) -> (Vec<String>, Vec<Vec<u8>>) {
        match self {
            DiffCase::Matrix { n, m, bits, quants } => {
                let mut exps = vec![];
                for i in 0..*n {
                    let row: Vec<String> = (0..*m).filter(|j| bits >> (i * m + j) & 1 == 1).map(|j| format!("L{j}")).collect();
                    let expr = if row.is_empty() { "(?:NOTHING)".to_string() } else { format!("(?:{})", row.join("|")) };
                    exps.push(exp_text(&expr, "regex", quants[i]));
                }
                let lines = (0..*m).map(|j| format!("L{j}\n").into_bytes()).collect();
                (exps, lines)
            }
            DiffCase::Words { exps, lines, last_newline } => {
                let e = exps.iter().map(|(k, q)| exp_text(WORD_EXPS[*k].0, WORD_EXPS[*k].1, *q)).collect();
                let mut l: Vec<Vec<u8>> = lines.iter().map(|i| format!("{}\n", WORD_LINES[*i]).into_bytes()).collect();
                if !*last_newline {
                    if let Some(last) = l.last_mut() {
                        last.pop();
                    }
                }
                (e, l)
            }
            DiffCase::DocumentedNonExample => (vec!["foo (*)".into(), "foo".into()], vec![b"foo\n".to_vec(), b"foo\n".to_vec()]),
        }
    }
}

fn shape(d: &Diff) -> Vec<u8> {
    d.lines
        .iter()
        .map(|l| match l {
            DiffLine::MatchedExpectation { lines, .. } => {
                if lines.len() > 1 {
                    3
                } else {
                    0
                }
            }
            DiffLine::UnmatchedExpectation { .. } => 1,
            DiffLine::UnexpectedLines { .. } => 2,
        })
        .collect()
}

/// C02 structural oracle; returns (clause, expected, observed) of the first failing clause
fn conservation(d: &Diff, exps: &[Expectation], quants: &[(bool, bool)], lines: &[Vec<u8>]) -> Option<(&'static str, String, String)> {
    let mut next_line = 0usize;
    let mut last_exp: Option<usize> = None;
    let mut seen = vec![0usize; exps.len()];
    let (mut cm, mut cu, mut co) = (0, 0, 0);
    let mut bytes: Vec<u8> = vec![];
    for entry in &d.lines {
        match entry {
            DiffLine::MatchedExpectation { index, expectation: _, lines: ls } => {
                cm += 1;
                co += ls.len();
                if *index >= exps.len() {
                    return Some(("expectation-index-in-range", format!("< {}", exps.len()), format!("{index}")));
                }
                if let Some(le) = last_exp {
                    if *index <= le {
                        return Some(("expectations-in-order", format!("index > {le}"), format!("{index}")));
                    }
                }
                last_exp = Some(*index);
                seen[*index] += 1;
                if ls.is_empty() {
                    return Some(("matched-has-lines", ">= 1 line".into(), "0 lines".into()));
                }
                if ls.len() > 1 && !quants[*index].1 {
                    return Some(("multiple-lines-only-if-multiline", "1 line".into(), format!("{} lines for non-multiline expectation {index}", ls.len())));
                }
                for (li, content) in ls {
                    if *li != next_line {
                        return Some(("lines-once-in-order", format!("line {next_line}"), format!("line {li}")));
                    }
                    if *li >= lines.len() || *content != lines[*li] {
                        return Some(("line-content", "content of that output line".into(), format!("line {li}: {:?}", String::from_utf8_lossy(content))));
                    }
                    if !exps[*index].matches(content) {
                        return Some(("matched-really-matches", format!("expectation {index} matches line {li}"), "it does not".into()));
                    }
                    bytes.extend_from_slice(content);
                    next_line += 1;
                }
            }
            DiffLine::UnmatchedExpectation { index, .. } => {
                cu += 1;
                if *index >= exps.len() {
                    return Some(("expectation-index-in-range", format!("< {}", exps.len()), format!("{index}")));
                }
                if let Some(le) = last_exp {
                    if *index <= le {
                        return Some(("expectations-in-order", format!("index > {le}"), format!("{index}")));
                    }
                }
                last_exp = Some(*index);
                seen[*index] += 1;
            }
            DiffLine::UnexpectedLines { lines: ls } => {
                co += ls.len();
                if ls.is_empty() {
                    return Some(("unexpected-has-lines", ">= 1 line".into(), "0 lines".into()));
                }
                for (li, content) in ls {
                    if *li != next_line {
                        return Some(("lines-once-in-order", format!("line {next_line}"), format!("line {li}")));
                    }
                    if *li >= lines.len() || *content != lines[*li] {
                        return Some(("line-content", "content of that output line".into(), format!("line {li}: {:?}", String::from_utf8_lossy(content))));
                    }
                    bytes.extend_from_slice(content);
                    next_line += 1;
                }
            }
        }
    }
    if next_line != lines.len() {
        return Some(("every-line-mentioned", format!("{} lines", lines.len()), format!("{next_line} lines")));
    }
    for (i, s) in seen.iter().enumerate() {
        if *s > 1 {
            return Some(("expectation-at-most-once", format!("expectation {i} once"), format!("{s} times")));
        }
        if *s == 0 && !quants[i].0 {
            return Some(("non-optional-expectation-mentioned", format!("expectation {i} (not optional) mentioned once"), "not mentioned".into()));
        }
    }
    if bytes != lines.concat() {
        return Some(("bytes-concatenate", "output bytes".into(), "different bytes".into()));
    }
    if (cm, cu, co) != (d.count_matched, d.count_unmatched, d.count_output_lines) {
        return Some(("counts-agree", format!("{cm}/{cu}/{co}"), format!("{}/{}/{}", d.count_matched, d.count_unmatched, d.count_output_lines)));
    }
    None
}

impl Engine for VcDiff {
    type Case = DiffCase;
    fn name(&self) -> &'static str {
        "vc_diff"
    }
    fn properties(&self) -> Vec<&'static str> {
        vec!["C01", "C02", "C03"]
    }
    fn hang_is_violation(&self) -> Vec<&'static str> {
        vec!["C02"]
    }
    fn case_timeout(&self) -> Duration {
        Duration::from_secs(10)
    }
    fn chunk(&self) -> usize {
        4096
    }

    fn cases(&self, tier: Tier) -> Box<dyn Iterator<Item = DiffCase> + Send + '_> {
        let mut dims: Vec<(usize, usize)> = match tier {
            Tier::Quick => vec![(0, 0), (0, 1), (0, 2), (1, 0), (2, 0), (1, 1), (1, 2), (2, 1), (1, 3), (3, 1), (2, 2), (1, 4), (4, 1), (2, 3), (3, 2), (2, 4), (4, 2), (3, 3), (3, 4), (4, 3)],
            Tier::Thorough => {
                let mut v = vec![];
                for n in 0..=6usize {
                    for m in 0..=6usize {
                        let cells = n * m;
                        // all with n,m <= 4, plus (5,3),(3,5),(6,2),(2,6),(5,2),(2,5),(5,1),(1,5),(6,1),(1,6)
                        if (n <= 4 && m <= 4) || (cells <= 15 && n.max(m) <= 6) {
                            v.push((n, m));
                        }
                    }
                }
                v
            }
        };
        dims.sort_by_key(|(n, m)| (n * m + n + m, *n));
        let matrix = dims.into_iter().flat_map(|(n, m)| {
            words(4, n).flat_map(move |qv| {
                let quants: Vec<Quant> = qv.iter().map(|i| Quant::ALL[*i]).collect();
                (0..(1u64 << (n * m))).map(move |bits| DiffCase::Matrix { n, m, bits, quants: quants.clone() })
            })
        });
        let (wn, wm) = match tier {
            Tier::Quick => (2, 3),
            Tier::Thorough => (3, 4),
        };
        let ne = WORD_EXPS.len() * 4;
        let words_cases = (0..=wn).flat_map(move |n| {
            words(ne, n).flat_map(move |ev| {
                let exps: Vec<(usize, Quant)> = ev.iter().map(|x| (x / 4, Quant::ALL[x % 4])).collect();
                (0..=wm).flat_map(move |m| {
                    let exps = exps.clone();
                    words(WORD_LINES.len(), m).flat_map(move |lines| {
                        let exps = exps.clone();
                        // (an empty last line without its terminator is no line at all: that output is the shorter one)
                        let nl: Vec<bool> = if lines.is_empty() || WORD_LINES[*lines.last().unwrap()].is_empty() { vec![true] } else { vec![true, false] };
                        nl.into_iter().map(move |last_newline| DiffCase::Words { exps: exps.clone(), lines: lines.clone(), last_newline })
                    })
                })
            })
        });
        Box::new(std::iter::once(DiffCase::DocumentedNonExample).chain(matrix).chain(words_cases))
    }

    fn bound(&self, tier: Tier) -> String {
        match tier {
            Tier::Quick => "all 2^(n*m) match matrices x 4^n quantifier vectors for (n,m) in {<=3x3, 4x1, 1x4, 4x2, 2x4, 4x3, 3x4}; all expectation words <=2 over 9 rule-kind atoms x 4 quantifiers x all outputs <=3 lines over {a, b, empty line, a<CR>, <CR>} with/without final newline".into(),
            Tier::Thorough => "all 2^(n*m) match matrices x 4^n quantifier vectors for all n,m<=4 plus every (n,m) with n*m<=15, n,m<=6; all expectation words <=3 over 9 rule-kind atoms x 4 quantifiers x all outputs <=4 lines over {a, b, empty line, a<CR>, <CR>} with/without final newline".into(),
        }
    }

    fn rule(&self, property: &str) -> String {
        let common = "cases enumerated smallest first and are pairwise distinct by construction (matrix bits x quantifier vector; word tuples); the match matrix is observed by calling Expectation::matches on every (expectation, line) pair, never assumed; ";
        match property {
            "C01" => format!("{common}non-trivial for C01 = the implementation accepted (no differences) with at least one expectation and one line, so the implication's antecedent is true; outcome = (impl accepts, NFA accepts)"),
            "C02" => format!("{common}non-trivial for C02 = the diff contains at least one unmatched expectation, unexpected line block or multi-line match; outcome = sequence of diff entry kinds"),
            _ => format!("{common}non-trivial for C03 = the case satisfies the one-line-lookahead determinism condition and has at least one expectation and one line; outcome = (deterministic, NFA accepts, impl accepts)"),
        }
    }

    fn assumptions(&self, _p: &str) -> Vec<String> {
        vec![
            "DiffTool::diff depends on its input only through matches(), optional and multiline (read in src/diff.rs); any n x m boolean matrix is realisable by m distinct lines".into(),
            "bounded: number of expectations and lines as stated in bound (L3)".into(),
            "the semantics of the individual rule kinds is C04's business; here only consistency with the observed matrix is required".into(),
        ]
    }

    fn check(&self, case: &DiffCase) -> CaseResult {
        let mut res = CaseResult::default();
        let (exp_texts, lines) = case.realise();
        let exps: Vec<Expectation> = exp_texts.iter().map(|t| expectation(t)).collect();
        let quants: Vec<(bool, bool)> = exps.iter().map(|e| (e.optional, e.multiline)).collect();
        let q: Vec<Quant> = quants
            .iter()
            .map(|(o, m)| match (o, m) {
                (false, false) => Quant::One,
                (true, false) => Quant::Optional,
                (true, true) => Quant::Star,
                (false, true) => Quant::Plus,
            })
            .collect();
        let output: Vec<u8> = lines.concat();
        let key = hash64(case);
        // observe the matrix
        let matrix: Vec<Vec<bool>> = match guard(|| exps.iter().map(|e| lines.iter().map(|l| e.matches(l)).collect()).collect()) {
            Ok(m) => m,
            Err(p) => {
                res.findings.push(Finding::new("C02", "no-crash", "matches() returns", format!("panic: {p}")));
                return res;
            }
        };
        if let DiffCase::Matrix { n, m, bits, .. } = case {
            let intended = (0..*n).all(|i| (0..*m).all(|j| matrix[i][j] == (bits >> (i * m + j) & 1 == 1)));
            res.counters.push(("matrix_as_intended", intended as u64));
        }
        let model = Model { q: &q, m: &matrix, lines: lines.len() };
        let (acc, det) = model.run();

        let tool = DiffTool::new(exps.clone());
        let d = match guard(|| tool.diff(&output)) {
            Ok(Ok(d)) => d,
            Ok(Err(e)) => {
                res.findings.push(Finding::new("C02", "no-crash", "a Diff", format!("error: {e}")));
                return res;
            }
            Err(p) => {
                res.findings.push(Finding::new("C02", "no-crash", "a Diff", format!("panic: {p}")));
                return res;
            }
        };
        let impl_acc = !d.has_differences();
        // the line count seen by the implementation must be the reference split
        if let Some((clause, e, o)) = conservation(&d, &exps, &quants, &lines) {
            res.findings.push(Finding::new("C02", clause, e, format!("{o}; diff = {d:?}")));
        }
        if impl_acc && !acc {
            res.findings.push(Finding::new("C01", "accepted-implies-described", "differences (output not in e1{q1}..en{qn})", format!("no differences; diff = {d:?}")));
        }
        if det && impl_acc != acc {
            res.findings.push(Finding::new(
                "C03",
                "deterministic-verdict-exact",
                format!("match reported iff described; NFA accepts = {acc}"),
                format!("impl reports match = {impl_acc}; diff = {d:?}"),
            ));
        }
        // the same through TestCase::validate
        let tc = TestCase {
            title: "t".into(),
            shell_expression: "true".into(),
            expectations: exps.clone(),
            exit_code: None,
            line_number: 1,
            config: Default::default(),
        };
        let out = Output { stdout: output.clone().into(), stderr: vec![].into(), exit_code: ExitStatus::Code(0) };
        match guard(|| tc.validate(&out)) {
            Ok(Ok(())) => {
                if !acc {
                    res.findings.push(Finding::new("C01", "validate-ok-implies-described", "Err(MalformedOutput)", "Ok(())"));
                }
            }
            Ok(Err(TestCaseError::MalformedOutput(_))) => {
                if det && acc {
                    res.findings.push(Finding::new("C03", "validate-deterministic-verdict-exact", "Ok(())", "Err(MalformedOutput)"));
                }
            }
            Ok(Err(e)) => {
                res.findings.push(Finding::new("C02", "no-crash", "Ok or MalformedOutput", format!("{e:?}")));
            }
            Err(p) => res.findings.push(Finding::new("C02", "no-crash", "validate returns", format!("panic: {p}"))),
        }

        let (n, m) = (exps.len(), lines.len());
        if impl_acc && n > 0 && m > 0 {
            res.nontrivial.push(("C01", key));
        }
        let sh = shape(&d);
        if sh.iter().any(|k| *k != 0) {
            res.nontrivial.push(("C02", key));
        }
        if det && n > 0 && m > 0 {
            res.nontrivial.push(("C03", key));
            res.counters.push(("deterministic", 1));
            if acc {
                res.counters.push(("deterministic_accepted", 1));
            }
        }
        if matches!(case, DiffCase::DocumentedNonExample) {
            // documents that the determinism filter is not vacuous: this case must be non-deterministic
            if det {
                machinery_failure("reference model classifies the documented non-deterministic example as deterministic");
            }
            res.counters.push(("documented_nonexample_impl_rejects_although_described", (!impl_acc && acc) as u64));
        }
        res.outcome.push(("C01", hash64(&(impl_acc, acc))));
        res.outcome.push(("C02", hash64(&sh)));
        res.outcome.push(("C03", hash64(&(det, acc, impl_acc))));
        res
    }

    fn size(&self, case: &DiffCase) -> usize {
        match case {
            DiffCase::Matrix { n, m, bits, quants } => (n * m + n + m) * 1000 + bits.count_ones() as usize * 10 + quants.iter().filter(|q| **q != Quant::One).count(),
            DiffCase::Words { exps, lines, .. } => (exps.len() * lines.len() + exps.len() + lines.len()) * 1000 + 500,
            DiffCase::DocumentedNonExample => 0,
        }
    }
}
