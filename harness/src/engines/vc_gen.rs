//! C09: generated tests pass against the very output they were generated from
//! (create / update / convert, Markdown and Cram, both escapers), in-process part.

use std::sync::Arc;

use scrut::config::{OutputStreamControl, TestCaseConfig};
use scrut::escaping::Escaper;
use scrut::expectation::ExpectationMaker;
use scrut::generators::cram::{CramTestCaseGenerator, CramUpdateGenerator};
use scrut::generators::generator::{TestCaseGenerator, UpdateGenerator};
use scrut::generators::markdown::{MarkdownTestCaseGenerator, MarkdownUpdateGenerator};
use scrut::outcome::Outcome;
use scrut::output::{ExitStatus, Output};
use scrut::parsers::cram::CramParser;
use scrut::parsers::markdown::MarkdownParser;
use scrut::parsers::parser::{Parser, ParserType};
use scrut::rules::glob_cram::CramGlobRule;
use scrut::rules::registry::RuleRegistry;
use scrut::rules::rule::RuleMaker;
use scrut::testcase::TestCase;
use serde::{Deserialize, Serialize};

use crate::core::*;

pub struct VcGen;

/// output line alphabet (bytes, without newline) and a tag naming the feature
pub fn line_kinds() -> Vec<(&'static [u8], &'static str)> {
    vec![
        (b"x", "plain"),
        (b"", "blank"),
        (b" ", "space-only"),
        (b"x ", "trailing-space"),
        (b"[1]", "looks-like-exit-code"),
        (b"$ y", "looks-like-command"),
        (b"> z", "looks-like-continuation"),
        // only the marker: becomes `$ (no-eol)` / `> (no-eol)` when it is the unterminated last line
        (b"$", "command-marker-alone"),
        (b">", "continuation-marker-alone"),
        (b"```", "fence3"),
        (b"````", "fence4"),
        (b"a (glob)", "ends-like-modifier"),
        (b"a (?)", "ends-like-modifier"),
        (b"a ()", "ends-in-empty-parens"),
        (b"a (escaped)", "ends-like-modifier"),
        (b"a\\tb", "backslash"),
        (b"a\\tb\x1b", "backslash-and-control"),
        (b"\0", "nul"),
        (b"\xff", "invalid-utf8"),
        ("\u{e9}".as_bytes(), "non-ascii"),
        ("\u{200b}".as_bytes(), "zero-width"),
        (b"# c", "looks-like-comment"),
        (b"  ind", "indented"),
        (b"---", "rule"),
        (b"a (no-eol)", "ends-like-modifier"),
        (b"x\r", "carriage-return"),
        // fence look-alikes that are not pure backtick runs
        (b"```json", "fence-with-info"),
        (b"```sh `date`", "fence-with-inline-code"),
    ]
}

/// product alphabet prefix x body x suffix used for the outputs of up to PRODUCT_LINES lines:
/// one representative per syntactic role a line part can play, combined freely
pub const PREFIXES: [&str; 8] = ["", "$ ", "> ", "[", "# ", "  ", "`", "\\"];
pub const BODIES: [&[u8]; 9] = [b"x", b"", b"a\\tb", b"a\\", b"\x1b", "\u{e9}".as_bytes(), b"```", b"1]", b"\\x41"];
pub const SUFFIXES: [&str; 10] = ["", " (glob)", " (?)", " ()", " (escaped)", " (no-eol)", " ", " (equal)", "\u{a0}(glob)", "\u{3000}(?)"];

pub fn product_line(i: usize) -> Vec<u8> {
    let (p, rest) = (i % PREFIXES.len(), i / PREFIXES.len());
    let (b, sfx) = (rest % BODIES.len(), rest / BODIES.len());
    let mut v = PREFIXES[p].as_bytes().to_vec();
    v.extend_from_slice(BODIES[b]);
    v.extend_from_slice(SUFFIXES[sfx].as_bytes());
    v
}
pub fn product_count() -> usize {
    PREFIXES.len() * BODIES.len() * SUFFIXES.len()
}

pub const COMMANDS: [&str; 4] = ["cmd", "cmd \\\n  more", "cat <<EOF\nfoo\nEOF", "cat <<EOF\n\nEOF"];
pub const EXITS: [i32; 4] = [0, 1, 80, 255];

#[derive(Clone, Debug, Serialize, Deserialize, Hash, PartialEq)]
pub enum Path {
    Create,
    Update,
    Convert,
}

#[derive(Clone, Debug, Serialize, Deserialize, Hash)]
pub struct GenCase {
    pub lines: Vec<usize>,
    pub final_newline: bool,
    pub exit: usize,
    pub command: usize,
    pub cram: bool,
    pub ascii: bool,
    pub path: Path,
    /// markdown only: validate against stderr (the output is put on stderr)
    pub stderr: bool,
    /// when set: the output lines are these indices into the product alphabet (and `lines` is empty)
    #[serde(default)]
    pub product: Vec<usize>,
    /// end-to-end replay: `scrut create` with a real printf command, then `scrut test` on the written file
    #[serde(default)]
    pub cli: bool,
}

thread_local! {
    static MD: MarkdownParser = MarkdownParser::new(Arc::new(ExpectationMaker::new(RuleRegistry::default())), &["scrut"], None);
    static CRAM: CramParser = {
        let mut r = RuleRegistry::default();
        r.register(CramGlobRule::make, &["glob", "gl"]);
        CramParser::new(Arc::new(ExpectationMaker::new(r)), 2)
    };
}

fn parse(text: &str, cram: bool) -> Result<Vec<TestCase>, String> {
    match guard(|| if cram { CRAM.with(|p| p.parse(text)) } else { MD.with(|p| p.parse(text)) }.map(|x| x.1).map_err(|e| format!("{e:#}"))) {
        Ok(r) => r,
        Err(p) => Err(format!("panic: {p}")),
    }
}

fn escaper(ascii: bool) -> Escaper {
    if ascii {
        Escaper::Ascii
    } else {
        Escaper::Unicode
    }
}

fn outcome(tc: &TestCase, output: &Output, cram: bool, ascii: bool) -> Outcome {
    Outcome { location: None, output: output.clone(), testcase: tc.clone(), format: if cram { ParserType::Cram } else { ParserType::Markdown }, escaping: escaper(ascii), result: tc.validate(output) }
}

fn generate_create(o: &Outcome, cram: bool) -> Result<String, String> {
    match guard(|| if cram { CramTestCaseGenerator::default().generate_testcases(&[o]) } else { MarkdownTestCaseGenerator::default().generate_testcases(&[o]) }.map_err(|e| format!("{e:#}"))) {
        Ok(r) => r,
        Err(p) => Err(format!("panic: {p}")),
    }
}

fn generate_update(doc: &str, o: &Outcome, cram: bool) -> Result<String, String> {
    match guard(|| if cram { CramUpdateGenerator::default().generate_update(doc, &[o]) } else { MarkdownUpdateGenerator::default().generate_update(doc, &[o]) }.map_err(|e| format!("{e:#}"))) {
        Ok(r) => r,
        Err(p) => Err(format!("panic: {p}")),
    }
}

impl GenCase {
    pub fn output_bytes(&self) -> Vec<u8> {
        let kinds = line_kinds();
        let mut out = vec![];
        for (i, l) in self.lines.iter().enumerate() {
            out.extend_from_slice(kinds[*l].0);
            if i + 1 < self.lines.len() || self.final_newline {
                out.push(b'\n');
            }
        }
        for (i, l) in self.product.iter().enumerate() {
            out.extend_from_slice(&product_line(*l));
            if i + 1 < self.product.len() || self.final_newline {
                out.push(b'\n');
            }
        }
        out
    }
}

impl Engine for VcGen {
    type Case = GenCase;
    fn name(&self) -> &'static str {
        "vc_gen"
    }
    fn properties(&self) -> Vec<&'static str> {
        vec!["C09"]
    }
    fn chunk(&self) -> usize {
        64
    }
    fn cases(&self, tier: Tier) -> Box<dyn Iterator<Item = GenCase> + Send + '_> {
        let k = if tier == Tier::Quick { 2 } else { 3 };
        let nk = line_kinds().len();
        let it = words_upto(nk, k).flat_map(move |lines| {
            let mut v = vec![];
            let full = lines.len() == 3;
            for final_newline in [true, false] {
                if lines.is_empty() && !final_newline {
                    continue;
                }
                for exit in 0..EXITS.len() {
                    if full && exit >= 2 {
                        continue; // depth 3: exit codes 0 and 1 only
                    }
                    for command in 0..COMMANDS.len() {
                        if full && command >= 2 {
                            continue; // depth 3: the two single/multi-line commands
                        }
                        for cram in [false, true] {
                            for ascii in [false, true] {
                                for path in [Path::Create, Path::Update, Path::Convert] {
                                    v.push(GenCase { lines: lines.clone(), final_newline, exit, command, cram, ascii, path: path.clone(), stderr: false, product: vec![], cli: false });
                                    if !cram && path == Path::Update && !full {
                                        v.push(GenCase { lines: lines.clone(), final_newline, exit, command, cram, ascii, path: path.clone(), stderr: true, product: vec![], cli: false });
                                    }
                                }
                            }
                        }
                    }
                }
            }
            v.into_iter()
        });
        // product alphabet: every single line (and, thorough, every pair with a plain second/first line)
        let np = product_count();
        let thorough = tier == Tier::Thorough;
        let prod = (0..np).flat_map(move |a| {
            let mut outs: Vec<Vec<usize>> = vec![vec![a]];
            // position matters (first line / later line): put a plain line (index of "x": prefix 0, body 0, suffix 0 = 0) before and after
            outs.push(vec![0, a]);
            if thorough {
                outs.push(vec![a, 0]);
                outs.push(vec![0, a, 0]);
            }
            outs.into_iter().flat_map(move |product| {
                let mut v = vec![];
                for final_newline in [true, false] {
                    for exit in [0usize, 1] {
                        for cram in [false, true] {
                            for ascii in [false, true] {
                                for path in [Path::Create, Path::Update, Path::Convert] {
                                    v.push(GenCase { lines: vec![], final_newline, exit, command: 0, cram, ascii, path, stderr: false, product: product.clone(), cli: false });
                                }
                            }
                        }
                    }
                }
                v.into_iter()
            })
        });
        // end-to-end replays through the binary: every single line of both alphabets, and pairs of the first alphabet
        let nk2 = line_kinds().len();
        let mut cli = vec![];
        for cram in [false, true] {
            for ascii in [false, true] {
                for l in 0..nk2 {
                    for final_newline in [true, false] {
                        cli.push(GenCase { lines: vec![l], final_newline, exit: if l % 2 == 0 { 0 } else { 1 }, command: 0, cram, ascii, path: Path::Create, stderr: false, product: vec![], cli: true });
                    }
                }
                if thorough {
                    for a in 0..np {
                        cli.push(GenCase { lines: vec![], final_newline: true, exit: 0, command: 0, cram, ascii, path: Path::Create, stderr: false, product: vec![a], cli: true });
                    }
                }
            }
        }
        Box::new(it.chain(prod).chain(cli.into_iter()))
    }
    fn bound(&self, tier: Tier) -> String {
        format!(
            "all outputs of <= {} lines over {} line kinds x final newline present/absent x exit codes {EXITS:?} x 4 commands (single line, backslash-continued, two here-docs) x {{markdown, cram}} x {{unicode, ascii}} escaper x {{create, update (stale expectation), convert (other format)}}; markdown update additionally with output_stream: stderr{}",
            if tier == Tier::Quick { 2 } else { 3 },
            line_kinds().len(),
            if tier == Tier::Quick { "; plus every line of the product alphabet (8 prefixes x 9 bodies x 8 suffixes = 576 lines) alone and after a plain line x final newline x exit 0/1 x formats x escapers x paths" } else { "; plus every line of the 576-line product alphabet alone, after, before and between plain lines; at 3 lines restricted to exit codes 0/1 and the first two commands" }
        )
    }
    fn rule(&self, _p: &str) -> String {
        "cases are distinct tuples by construction; non-trivial = the output contains at least one line that is not plain text (syntax look-alike, whitespace, control/invalid bytes) or lacks the final newline, or the exit code is non-zero; outcome = (path, format, result class of the generating validation, round trip ok)".into()
    }
    fn assumptions(&self, _p: &str) -> Vec<String> {
        vec![
            "in-process: the Output is constructed directly (what the executors deliver is C13's business); parsers are the ones `scrut test` uses (cram-compat expectation maker for Cram); plus end-to-end replays: `scrut create -- printf ...` followed by `scrut test` for every single line of the alphabets".into(),
            "update/convert start from a document generated for the same command with a stale expectation".into(),
        ]
    }

    fn check(&self, case: &GenCase) -> CaseResult {
        let mut res = CaseResult::default();
        let kinds = line_kinds();
        let bytes = case.output_bytes();
        let exit = EXITS[case.exit];
        let output = if case.stderr {
            Output { stdout: b"on stdout\n".to_vec().into(), stderr: bytes.clone().into(), exit_code: ExitStatus::Code(exit) }
        } else {
            Output { stdout: bytes.clone().into(), stderr: vec![].into(), exit_code: ExitStatus::Code(exit) }
        };
        let mut base_cfg = if case.cram { TestCaseConfig::default_cram() } else { TestCaseConfig::default_markdown() };
        if case.stderr {
            base_cfg.output_stream = Some(OutputStreamControl::Stderr);
        }
        let cmd = COMMANDS[case.command];
        let mut tags: Vec<String> = case.lines.iter().map(|l| kinds[*l].1.to_string()).collect();
        if !case.final_newline {
            tags.push("no-final-newline".into());
        }
        for l in &case.product {
            let (p, rest) = (l % PREFIXES.len(), l / PREFIXES.len());
            let (b, sfx) = (rest % BODIES.len(), rest / BODIES.len());
            tags.push(format!("prefix:{}", PREFIXES[p]));
            tags.push(format!("body:{}", String::from_utf8_lossy(BODIES[b])));
            tags.push(format!("suffix:{}", SUFFIXES[sfx]));
        }
        if let Some(first) = case.lines.first() {
            tags.push(format!("first-line-{}", kinds[*first].1));
        }
        // independent of scrut's escaper: is some line rendered as escaped expectation although it ends in ` (no-eol)`?
        {
            thread_local! { static C: regex::Regex = regex::Regex::new(r"\p{C}").unwrap(); }
            let all: Vec<&[u8]> = bytes.split(|b| *b == b'\n').collect();
            for (i, l) in all.iter().enumerate() {
                let unprintable = match (case.ascii, std::str::from_utf8(l)) {
                    (true, _) | (_, Err(_)) => l.iter().any(|b| !(0x20..0x7f).contains(b)),
                    (false, Ok(s)) => C.with(|c| c.is_match(s)),
                };
                let escaped = unprintable || l.starts_with(b"$ ") || (i == 0 && l.starts_with(b"> "));
                if escaped && l.ends_with(b" (no-eol)") {
                    tags.push("escaped-line-ending-in-no-eol-marker".into());
                }
            }
        }
        tags.push(if case.cram { "format-cram".into() } else { "format-markdown".into() });
        tags.sort();
        tags.dedup();
        let nontrivial = case.lines.iter().any(|l| kinds[*l].1 != "plain") || case.product.iter().any(|l| *l != 0) || !case.final_newline || exit != 0;
        if nontrivial {
            res.nontrivial.push(("C09", hash64(case)));
        }
        let fail = |res: &mut CaseResult, clause: &str, exp: String, obs: String| {
            let mut f = Finding::new("C09", clause, exp, obs);
            f.tags = tags.clone();
            res.findings.push(f);
        };

        if case.cli {
            use crate::cli::*;
            use crate::execs::printf_octal;
            let sb = Sandbox::new();
            // bash's printf cannot emit NUL-free? it can: \\000 works in printf
            let expr = format!("printf '{}'; (exit {})", printf_octal(&bytes), exit);
            let file = if case.cram { "gen.t" } else { "gen.md" };
            let mut args = vec!["create", "--no-color", "-o", file, "-f", if case.cram { "cram" } else { "markdown" }, "--escaping", if case.ascii { "ascii" } else { "unicode" }];
            args.push("--");
            args.push(&expr);
            let created = run_scrut(&sb, &args, &[], std::time::Duration::from_secs(60));
            if created.status != Some(0) {
                fail(&mut res, "create-succeeds", format!("scrut create for output {:?} exit {exit}", String::from_utf8_lossy(&bytes)), format!("status {:?}: {}", created.status, created.stderr_str().lines().last().unwrap_or("")));
                return res;
            }
            let tested = run_scrut(&sb, &["test", "--no-color", "-r", "json", "--escaping", if case.ascii { "ascii" } else { "unicode" }, file], &[], std::time::Duration::from_secs(60));
            let kinds = tested.json_kinds();
            res.outcome.push(("C09", hash64(&("cli", case.cram, tested.status))));
            if tested.status != Some(0) || kinds.as_ref().map(|k| k != &vec!["success".to_string()]).unwrap_or(true) {
                let doc = std::fs::read_to_string(sb.docs.join(file)).unwrap_or_default();
                fail(&mut res, "generated-test-passes", format!("`scrut test` passes on the document `scrut create` wrote for output {:?} exit {exit}: {doc:?}", String::from_utf8_lossy(&bytes)), format!("status {:?}, {kinds:?}", tested.status));
            }
            return res;
        }
        // the test the document is generated from
        let fresh = TestCase { title: "Title".into(), shell_expression: cmd.into(), expectations: vec![], exit_code: None, line_number: 0, config: base_cfg.clone() };
        let (generated, target_cram) = match case.path {
            Path::Create => {
                let o = outcome(&fresh, &output, case.cram, case.ascii);
                (generate_create(&o, case.cram), case.cram)
            }
            Path::Update | Path::Convert => {
                // source document with a stale expectation, in the source format
                let stale = Output { stdout: b"stale\n".to_vec().into(), stderr: b"stale\n".to_vec().into(), exit_code: ExitStatus::Code(0) };
                let o0 = outcome(&fresh, &stale, case.cram, case.ascii);
                let doc = match generate_create(&o0, case.cram) {
                    Ok(d) => d,
                    Err(e) => {
                        fail(&mut res, "generator-returns", "source document".into(), e);
                        return res;
                    }
                };
                let mut tests = match parse(&doc, case.cram) {
                    Ok(t) if t.len() == 1 => t,
                    other => machinery_failure(&format!("source document does not parse to one test: {other:?} / {doc:?}")),
                };
                let tc = tests.remove(0);
                let o = outcome(&tc, &output, case.cram, case.ascii);
                if case.path == Path::Update {
                    (generate_update(&doc, &o, case.cram), case.cram)
                } else {
                    (generate_create(&o, !case.cram), !case.cram)
                }
            }
        };
        let text = match generated {
            Ok(t) => t,
            Err(e) => {
                fail(&mut res, "generator-returns", format!("a document for output {:?} exit {exit}", String::from_utf8_lossy(&bytes)), e);
                return res;
            }
        };
        let back = match parse(&text, target_cram) {
            Ok(t) => t,
            Err(e) => {
                fail(&mut res, "generated-document-parses", format!("{text:?} parses"), e);
                res.outcome.push(("C09", hash64(&(&case.path, target_cram, "unparsable"))));
                return res;
            }
        };
        if back.len() != 1 || back[0].shell_expression != cmd {
            fail(
                &mut res,
                "same-shell-expression",
                format!("one test with expression {cmd:?} from {text:?}"),
                format!("{} test(s): {:?}", back.len(), back.iter().map(|t| t.shell_expression.clone()).collect::<Vec<_>>()),
            );
            res.outcome.push(("C09", hash64(&(&case.path, target_cram, "other-expression"))));
            return res;
        }
        // convert: the output as the re-parsed test would select it
        let verdict = guard(|| back[0].validate(&output));
        match verdict {
            Ok(Ok(())) => res.outcome.push(("C09", hash64(&(&case.path, target_cram, "pass", exit != 0)))),
            Ok(Err(e)) => {
                fail(&mut res, "generated-test-passes", format!("{text:?} passes on output {:?} exit {exit}", String::from_utf8_lossy(&bytes)), format!("{e:?}"));
                res.outcome.push(("C09", hash64(&(&case.path, target_cram, "fail"))));
            }
            Err(p) => fail(&mut res, "no-crash", "verdict".into(), format!("panic: {p}")),
        }
        res
    }
    fn size(&self, case: &GenCase) -> usize {
        (case.lines.len() + case.product.len()) * 1000 + case.product.iter().sum::<usize>() + case.exit * 10 + case.command * 100 + (!case.final_newline) as usize * 50 + case.cram as usize + case.ascii as usize + case.stderr as usize * 2
    }
}
