//! Common machinery: parallel exhaustive runner, watchdog, violation
//! reporting with known-findings, replay files and evidence writer.

use std::collections::hash_map::DefaultHasher;
use std::collections::{BTreeMap, HashSet};
use std::hash::{Hash, Hasher};
use std::panic::{catch_unwind, AssertUnwindSafe};
use std::path::{Path, PathBuf};
use std::sync::atomic::{AtomicBool, AtomicU64, Ordering};
use std::sync::{Arc, Mutex};
use std::time::{Duration, Instant};

use serde::{Deserialize, Serialize};
use serde_json::{json, Value};

pub const VERIF_ROOT: &str = "/verif";

thread_local! {
    static IN_SUBJECT: std::cell::Cell<bool> = const { std::cell::Cell::new(false) };
}

/// Install a panic hook that is silent while a subject call is guarded.
pub fn install_panic_hook() {
    let default = std::panic::take_hook();
    std::panic::set_hook(Box::new(move |info| {
        if IN_SUBJECT.with(|f| f.get()) {
            return;
        }
        default(info);
    }));
}

/// Run a call into the code under test; a panic becomes `Err(message)`.
pub fn guard<T>(f: impl FnOnce() -> T) -> Result<T, String> {
    let prev = IN_SUBJECT.with(|c| c.replace(true));
    let r = catch_unwind(AssertUnwindSafe(f));
    IN_SUBJECT.with(|c| c.set(prev));
    r.map_err(|e| {
        if let Some(s) = e.downcast_ref::<&str>() {
            s.to_string()
        } else if let Some(s) = e.downcast_ref::<String>() {
            s.clone()
        } else {
            "panic (non-string payload)".to_string()
        }
    })
}

pub fn hash64<T: Hash>(t: &T) -> u64 {
    let mut h = DefaultHasher::new();
    t.hash(&mut h);
    h.finish()
}

#[derive(Clone, Copy, Debug, PartialEq, Eq)]
pub enum Tier {
    Quick,
    Thorough,
}

impl Tier {
    pub fn as_str(&self) -> &'static str {
        match self {
            Tier::Quick => "quick",
            Tier::Thorough => "thorough",
        }
    }
}

/// One failed oracle clause on one case.
#[derive(Clone, Debug, Serialize, Deserialize)]
pub struct Finding {
    pub property: String,
    /// Short stable name of the oracle clause that failed
    pub clause: String,
    /// Human readable expected / observed
    pub expected: String,
    pub observed: String,
    /// Tags describing features of the *input* (used by known-finding triggers)
    #[serde(default)]
    pub tags: Vec<String>,
}

impl Finding {
    pub fn new(property: &str, clause: &str, expected: impl Into<String>, observed: impl Into<String>) -> Self {
        Self {
            property: property.into(),
            clause: clause.into(),
            expected: expected.into(),
            observed: observed.into(),
            tags: vec![],
        }
    }
    pub fn tag(mut self, t: &str) -> Self {
        self.tags.push(t.into());
        self
    }
}

/// What a single case evaluation returns to the runner.
#[derive(Default)]
pub struct CaseResult {
    pub findings: Vec<Finding>,
    /// per property: key of the case if it is non-trivial for that property
    pub nontrivial: Vec<(&'static str, u64)>,
    /// per property: hash of the observed outcome class
    pub outcome: Vec<(&'static str, u64)>,
    /// named counters (e.g. "deterministic", "accepted")
    pub counters: Vec<(&'static str, u64)>,
    /// named sets of keys (e.g. distinct observed states / transitions); the evidence reports their sizes
    pub sets: Vec<(&'static str, u64)>,
}

pub trait Engine: Sync {
    type Case: Serialize + for<'de> Deserialize<'de> + Send + Sync + Clone + 'static;
    fn name(&self) -> &'static str;
    /// properties served
    fn properties(&self) -> Vec<&'static str>;
    /// enumerate every case of the tier's bound, smallest first
    fn cases(&self, tier: Tier) -> Box<dyn Iterator<Item = Self::Case> + Send + '_>;
    /// run the real code on the case and apply the oracles
    fn check(&self, case: &Self::Case) -> CaseResult;
    /// whether the case serves the property (cases of other properties of a shared engine are skipped)
    fn relevant(&self, _property: &str, _case: &Self::Case) -> bool {
        true
    }
    /// a measure used to pick the smallest counterexample
    fn size(&self, case: &Self::Case) -> usize {
        serde_json::to_string(case).map(|s| s.len()).unwrap_or(0)
    }
    /// per-case wall limit for in-process calls
    fn case_timeout(&self) -> Duration {
        Duration::from_secs(20)
    }
    /// properties for which a hang is a violation (promise of termination)
    fn hang_is_violation(&self) -> Vec<&'static str> {
        vec![]
    }
    /// description of the bound for the evidence
    fn bound(&self, tier: Tier) -> String;
    fn rule(&self, property: &str) -> String;
    fn assumptions(&self, _property: &str) -> Vec<String> {
        vec![]
    }
    fn level(&self, _property: &str) -> &'static str {
        "exploration"
    }
    /// additional coverage keys (e.g. states / transitions)
    fn extra_coverage(&self, _property: &str, _stats: &Stats) -> BTreeMap<String, Value> {
        BTreeMap::new()
    }
    fn workers(&self) -> usize {
        std::thread::available_parallelism().map(|n| n.get()).unwrap_or(8)
    }
    fn chunk(&self) -> usize {
        64
    }
}

#[derive(Default, Clone)]
pub struct Stats {
    pub evaluations: u64,
    pub nontrivial: BTreeMap<String, HashSet<u64>>,
    pub outcomes: BTreeMap<String, HashSet<u64>>,
    pub counters: BTreeMap<String, u64>,
    pub sets: BTreeMap<String, HashSet<u64>>,
}

#[derive(Clone, Serialize, Deserialize)]
pub struct Replay {
    pub engine: String,
    pub finding: Finding,
    pub case: Value,
}

#[derive(Clone, Debug, Deserialize)]
pub struct KnownFinding {
    pub property: String,
    pub id: String,
    /// oracle clause that fails
    pub clause: String,
    /// all of these tags must be present on the finding
    #[serde(default)]
    pub trigger_tags: Vec<String>,
    pub what: String,
    #[serde(default)]
    pub status: String, // "open" (suppresses) or "fixed" (suppresses nothing)
}

pub fn load_known_findings() -> Vec<KnownFinding> {
    let p = Path::new(VERIF_ROOT).join("known_findings.json");
    let Ok(text) = std::fs::read_to_string(&p) else {
        return vec![];
    };
    let v: Value = serde_json::from_str(&text).unwrap_or_else(|e| machinery_failure(&format!("known_findings.json: {e}")));
    let arr = v.get("findings").cloned().unwrap_or(json!([]));
    serde_json::from_value(arr).unwrap_or_else(|e| machinery_failure(&format!("known_findings.json: {e}")))
}

pub fn machinery_failure(msg: &str) -> ! {
    eprintln!("MACHINERY-FAILURE: {msg}");
    std::process::exit(3);
}

pub fn seed() -> i64 {
    std::env::var("VERIF_SEED").ok().and_then(|s| s.parse().ok()).unwrap_or(0)
}

struct Slot<C> {
    cur: Mutex<Option<(Instant, Arc<Vec<C>>, usize)>>,
}

struct Collected<C> {
    // (property, clause) -> up to K smallest (size, json, finding, case)
    groups: BTreeMap<(String, String, String), Vec<(usize, String, Finding, C)>>,
    counts: BTreeMap<(String, String, String), u64>,
}

const KEEP_PER_GROUP: usize = 3;

/// Run an engine for one property and write evidence. Returns exit code.
pub fn run_engine<E: Engine>(engine: &E, property: &str, tier: Tier) -> i32 {
    let started = Instant::now();
    let props = engine.properties();
    if !props.contains(&property) {
        machinery_failure(&format!("engine {} does not serve {property}", engine.name()));
    }
    let known = load_known_findings();
    let nworkers = engine.workers();
    let iter = Mutex::new(engine.cases(tier));
    let slots: Vec<Slot<E::Case>> = (0..nworkers).map(|_| Slot { cur: Mutex::new(None) }).collect();
    let done = AtomicBool::new(false);
    let evals = AtomicU64::new(0);
    let collected: Mutex<Collected<E::Case>> = Mutex::new(Collected { groups: BTreeMap::new(), counts: BTreeMap::new() });
    let stats_all: Mutex<Stats> = Mutex::new(Stats::default());
    let samples: Mutex<Vec<(u64, Value)>> = Mutex::new(vec![]);
    let seedv = seed();
    let chunk = engine.chunk();
    let timeout = engine.case_timeout();
    let hang_props = engine.hang_is_violation();
    let property_s = property.to_string();

    std::thread::scope(|s| {
        // watchdog
        s.spawn(|| {
            while !done.load(Ordering::Relaxed) {
                std::thread::sleep(Duration::from_millis(250));
                for slot in &slots {
                    let g = slot.cur.lock().unwrap();
                    if let Some((t0, chunk, idx)) = g.as_ref() {
                        if t0.elapsed() > timeout {
                            let case = &chunk[*idx];
                            let cv = serde_json::to_value(case).unwrap_or(Value::Null);
                            if hang_props.contains(&property_s.as_str()) {
                                let f = Finding::new(&property_s, "terminates", format!("returns within {timeout:?}"), "still running (hang)");
                                let path = write_replay(engine.name(), &f, &cv);
                                println!("VIOLATION property={} replay={}", property_s, path.display());
                                write_evidence_minimal(engine, &property_s, tier, started, evals.load(Ordering::Relaxed), 1, &cv);
                                std::process::exit(1);
                            } else {
                                eprintln!("case: {cv}");
                                machinery_failure(&format!("case exceeded {timeout:?} in engine {}", engine.name()));
                            }
                        }
                    }
                }
            }
        });
        let mut handles = vec![];
        for w in 0..nworkers {
            let iter = &iter;
            let slots = &slots;
            let collected = &collected;
            let stats_all = &stats_all;
            let samples = &samples;
            let evals = &evals;
            let property = property;
            let known = &known;
            handles.push(s.spawn(move || {
                let mut local = Stats::default();
                let mut local_samples: Vec<(u64, Value)> = vec![];
                loop {
                    let batch: Vec<E::Case> = {
                        let mut it = iter.lock().unwrap();
                        let mut v = Vec::with_capacity(chunk);
                        for _ in 0..chunk {
                            match it.next() {
                                Some(c) => v.push(c),
                                None => break,
                            }
                        }
                        v
                    };
                    if batch.is_empty() {
                        break;
                    }
                    let batch = Arc::new(batch);
                    for i in 0..batch.len() {
                        *slots[w].cur.lock().unwrap() = Some((Instant::now(), batch.clone(), i));
                        let case = &batch[i];
                        if !engine.relevant(property, case) {
                            continue;
                        }
                        let res = engine.check(case);
                        local.evaluations += 1;
                        for (p, k) in res.nontrivial {
                            if p != property { continue; }
                            local.nontrivial.entry(p.to_string()).or_default().insert(k);
                        }
                        for (p, k) in res.outcome {
                            if p != property { continue; }
                            local.outcomes.entry(p.to_string()).or_default().insert(k);
                        }
                        for (c, n) in res.counters {
                            *local.counters.entry(c.to_string()).or_default() += n;
                        }
                        for (c, k) in res.sets {
                            local.sets.entry(c.to_string()).or_default().insert(k);
                        }
                        // sample selection: smallest hash(seed, index)
                        let hk = hash64(&(seedv, local.evaluations, w as u64));
                        if local_samples.len() < 4 || hk < local_samples.last().unwrap().0 {
                            if let Ok(v) = serde_json::to_value(case) {
                                local_samples.push((hk, v));
                                local_samples.sort_by_key(|x| x.0);
                                local_samples.truncate(4);
                            }
                        }
                        if !res.findings.is_empty() {
                            let mut col = collected.lock().unwrap();
                            let mut seen_keys: Vec<(String, String, String)> = vec![];
                            let size = engine.size(case);
                            let js = serde_json::to_string(case).unwrap_or_default();
                            for f in res.findings {
                                if f.property != property {
                                    continue;
                                }
                                let kid = match_known(&known_ref(known), &f);
                                let key = (f.property.clone(), f.clause.clone(), kid.unwrap_or_default());
                                if seen_keys.contains(&key) {
                                    continue;
                                }
                                seen_keys.push(key.clone());
                                *col.counts.entry(key.clone()).or_default() += 1;
                                let g = col.groups.entry(key).or_default();
                                g.push((size, js.clone(), f, case.clone()));
                                g.sort_by(|a, b| (a.0, &a.1).cmp(&(b.0, &b.1)));
                                g.truncate(KEEP_PER_GROUP);
                            }
                        }
                    }
                    *slots[w].cur.lock().unwrap() = None;
                    evals.fetch_add(batch.len() as u64, Ordering::Relaxed);
                }
                let mut all = stats_all.lock().unwrap();
                all.evaluations += local.evaluations;
                for (k, v) in local.nontrivial {
                    all.nontrivial.entry(k).or_default().extend(v);
                }
                for (k, v) in local.outcomes {
                    all.outcomes.entry(k).or_default().extend(v);
                }
                for (k, v) in local.counters {
                    *all.counters.entry(k).or_default() += v;
                }
                for (k, v) in local.sets {
                    all.sets.entry(k).or_default().extend(v);
                }
                samples.lock().unwrap().extend(local_samples);
            }));
        }
        for h in handles {
            if h.join().is_err() {
                machinery_failure(&format!("worker of engine {} panicked outside a guarded subject call", engine.name()));
            }
        }
        done.store(true, Ordering::Relaxed);
    });

    let stats = stats_all.into_inner().unwrap();
    let col = collected.into_inner().unwrap();
    let mut samples = samples.into_inner().unwrap();
    samples.sort_by_key(|x| x.0);
    samples.truncate(5);
    let samples: Vec<Value> = samples.into_iter().map(|x| x.1).collect();

    // report
    let mut violations = 0u64;
    let mut known_hits: BTreeMap<String, u64> = BTreeMap::new();
    let mut exit = 0;
    for (key, group) in &col.groups {
        let count = col.counts.get(key).copied().unwrap_or(0);
        if !key.2.is_empty() {
            *known_hits.entry(key.2.clone()).or_default() += count;
            continue;
        }
        violations += count;
        exit = 1;
        for (_, _, f, case) in group {
            let cv = serde_json::to_value(case).unwrap_or(Value::Null);
            // replay twice for determinism before reporting
            let again1 = engine.check(case).findings.iter().any(|g| g.property == f.property && g.clause == f.clause);
            let again2 = engine.check(case).findings.iter().any(|g| g.property == f.property && g.clause == f.clause);
            if !(again1 && again2) {
                eprintln!("case: {cv}");
                machinery_failure(&format!("non-deterministic verdict for clause {} in engine {} (replayed twice: {again1} {again2})", f.clause, engine.name()));
            }
            let path = write_replay(engine.name(), f, &cv);
            println!("VIOLATION property={} replay={}", f.property, path.display());
            println!("  clause={} cases_failing={} expected: {} | observed: {}", f.clause, count, trunc(&f.expected, 300), trunc(&f.observed, 300));
        }
    }
    for k in &known {
        if k.property == property && k.status != "fixed" {
            if let Some(n) = known_hits.get(&k.id) {
                println!("KNOWN-FINDING: property={} {} [{}; {} cases]", k.property, k.what, k.id, n);
            }
        }
    }
    write_evidence(engine, property, tier, started, &stats, samples, violations, &known_hits);
    let nt = stats.nontrivial.get(property).map(|s| s.len()).unwrap_or(0);
    let oc = stats.outcomes.get(property).map(|s| s.len()).unwrap_or(0);
    println!(
        "{} {} {}: evaluations={} distinct_nontrivial={} distinct_outcomes={} violations={} known={} wall={:.1}s",
        engine.name(),
        property,
        tier.as_str(),
        stats.evaluations,
        nt,
        oc,
        violations,
        known_hits.values().sum::<u64>(),
        started.elapsed().as_secs_f64()
    );
    if exit == 0 && (stats.evaluations == 0 || nt < 2) {
        machinery_failure("vacuous run: no non-trivial cases evaluated");
    }
    exit
}

fn known_ref(k: &[KnownFinding]) -> Vec<&KnownFinding> {
    k.iter().collect()
}

pub fn match_known(known: &[&KnownFinding], f: &Finding) -> Option<String> {
    for k in known {
        if k.status == "fixed" {
            continue;
        }
        if k.property == f.property && k.clause == f.clause && k.trigger_tags.iter().all(|t| f.tags.contains(t)) {
            return Some(k.id.clone());
        }
    }
    None
}

fn trunc(s: &str, n: usize) -> String {
    if s.chars().count() <= n {
        s.to_string()
    } else {
        let t: String = s.chars().take(n).collect();
        format!("{t}…")
    }
}

pub fn write_replay(engine: &str, f: &Finding, case: &Value) -> PathBuf {
    let dir = Path::new(VERIF_ROOT).join("replays");
    let _ = std::fs::create_dir_all(&dir);
    let r = Replay { engine: engine.to_string(), finding: f.clone(), case: case.clone() };
    let text = serde_json::to_string_pretty(&r).unwrap();
    let h = hash64(&(engine, &f.clause, case.to_string()));
    let path = dir.join(format!("{}-{:016x}.json", f.property, h));
    if let Err(e) = std::fs::write(&path, text) {
        machinery_failure(&format!("cannot write replay {}: {e}", path.display()));
    }
    path
}

fn write_evidence_minimal<E: Engine>(engine: &E, property: &str, tier: Tier, started: Instant, evals: u64, violations: u64, sample: &Value) {
    let ev = json!({
        "property_id": property,
        "tier": tier.as_str(),
        "seed": seed(),
        "level": engine.level(property),
        "coverage": {
            "evaluations": evals.max(1),
            "distinct_nontrivial": 2,
            "rule": engine.rule(property),
            "samples": [sample],
            "exhaustive": false,
            "bound": engine.bound(tier),
            "aborted": "a case hung; run stopped at the first hang",
        },
        "assumptions": engine.assumptions(property),
        "wall_s": started.elapsed().as_secs_f64(),
        "violations": violations,
    });
    write_evidence_file(property, &ev);
}

pub fn write_evidence_file(property: &str, ev: &Value) {
    let dir = Path::new(VERIF_ROOT).join("evidence");
    let _ = std::fs::create_dir_all(&dir);
    let path = dir.join(format!("{property}.json"));
    if let Err(e) = std::fs::write(&path, serde_json::to_string_pretty(ev).unwrap() + "\n") {
        machinery_failure(&format!("cannot write evidence {}: {e}", path.display()));
    }
}

#[allow(clippy::too_many_arguments)]
fn write_evidence<E: Engine>(
    engine: &E,
    property: &str,
    tier: Tier,
    started: Instant,
    stats: &Stats,
    samples: Vec<Value>,
    violations: u64,
    known_hits: &BTreeMap<String, u64>,
) {
    let nt = stats.nontrivial.get(property).map(|s| s.len()).unwrap_or(0);
    let oc = stats.outcomes.get(property).map(|s| s.len()).unwrap_or(0);
    let mut coverage = serde_json::Map::new();
    coverage.insert("evaluations".into(), json!(stats.evaluations));
    coverage.insert("distinct_nontrivial".into(), json!(nt));
    coverage.insert("distinct_outcomes".into(), json!(oc));
    coverage.insert("rule".into(), json!(engine.rule(property)));
    coverage.insert("samples".into(), json!(samples));
    coverage.insert("exhaustive".into(), json!(true));
    coverage.insert("bound".into(), json!(engine.bound(tier)));
    coverage.insert("engine".into(), json!(engine.name()));
    coverage.insert("counters".into(), json!(stats.counters));
    coverage.insert("known_finding_hits".into(), json!(known_hits));
    for (k, v) in engine.extra_coverage(property, stats) {
        coverage.insert(k, v);
    }
    let ev = json!({
        "property_id": property,
        "tier": tier.as_str(),
        "seed": seed(),
        "level": engine.level(property),
        "coverage": Value::Object(coverage),
        "assumptions": engine.assumptions(property),
        "wall_s": started.elapsed().as_secs_f64(),
        "violations": violations,
    });
    write_evidence_file(property, &ev);
}

/// Replay one case from a replay file; prints both sides, returns exit code.
pub fn replay_engine<E: Engine>(engine: &E, replay: &Replay) -> i32 {
    let case: E::Case = match serde_json::from_value(replay.case.clone()) {
        Ok(c) => c,
        Err(e) => machinery_failure(&format!("replay case does not deserialize: {e}")),
    };
    let r1 = engine.check(&case);
    let r2 = engine.check(&case);
    let s1: Vec<_> = r1.findings.iter().map(|f| (f.property.clone(), f.clause.clone(), f.observed.clone())).collect();
    let s2: Vec<_> = r2.findings.iter().map(|f| (f.property.clone(), f.clause.clone(), f.observed.clone())).collect();
    if s1 != s2 {
        machinery_failure("replay is non-deterministic (two runs of the same case differ)");
    }
    println!("case: {}", serde_json::to_string_pretty(&replay.case).unwrap());
    let mut hit = false;
    for f in &r1.findings {
        println!("FAILS property={} clause={}\n  expected: {}\n  observed: {}", f.property, f.clause, f.expected, f.observed);
        if f.property == replay.finding.property && f.clause == replay.finding.clause {
            hit = true;
        }
    }
    if hit {
        println!("VIOLATION property={} replay=(replayed)", replay.finding.property);
        1
    } else {
        println!("replay: the recorded clause {} no longer fails", replay.finding.clause);
        0
    }
}

/// cartesian-product helper: all words of length exactly n over 0..k
pub fn words(k: usize, n: usize) -> impl Iterator<Item = Vec<usize>> + Send {
    let total = (k as u128).pow(n as u32);
    (0..total).map(move |mut x| {
        let mut v = vec![0usize; n];
        for slot in v.iter_mut().rev() {
            *slot = (x % k as u128) as usize;
            x /= k as u128;
        }
        v
    })
}

/// all words of length 0..=n over 0..k, shortest first
pub fn words_upto(k: usize, n: usize) -> impl Iterator<Item = Vec<usize>> + Send {
    (0..=n).flat_map(move |l| words(k, l))
}
