mod cli;
mod core;
mod engines;
mod execs;
mod refmodel;

use crate::core::*;

fn usage() -> ! {
    eprintln!("usage: vc run <property> <quick|thorough> | vc replay <file>");
    std::process::exit(2);
}

fn main() {
    install_panic_hook();
    // nothing of the caller's shell session may leak into the shells under test
    for v in ["OLDPWD", "PWD", "SHLVL", "_"] {
        std::env::remove_var(v);
    }
    let args: Vec<String> = std::env::args().collect();
    if args.len() < 2 {
        usage();
    }
    match args[1].as_str() {
        "run" => {
            if args.len() < 4 {
                usage();
            }
            let tier = match args[3].as_str() {
                "quick" => Tier::Quick,
                "thorough" => Tier::Thorough,
                _ => usage(),
            };
            let code = engines::run(&args[2], tier);
            execs::cleanup_work_root();
            std::process::exit(code);
        }
        "crlf-size" => {
            let pairs: usize = args.get(2).and_then(|s| s.parse().ok()).unwrap_or(1000);
            std::process::exit(engines::vc_io::crlf_size_child(pairs));
        }
        "replay" => {
            if args.len() < 3 {
                usage();
            }
            let text = std::fs::read_to_string(&args[2]).unwrap_or_else(|e| machinery_failure(&format!("cannot read {}: {e}", args[2])));
            let replay: Replay = serde_json::from_str(&text).unwrap_or_else(|e| machinery_failure(&format!("bad replay file: {e}")));
            let code = engines::replay(&replay);
            execs::cleanup_work_root();
            std::process::exit(code);
        }
        _ => usage(),
    }
}
