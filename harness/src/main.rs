mod core;
mod engines;
mod refmodel;

use crate::core::*;

fn usage() -> ! {
    eprintln!("usage: vc run <property> <quick|thorough> | vc replay <file>");
    std::process::exit(2);
}

fn main() {
    install_panic_hook();
    let args: Vec<String> = std::env::args().collect();
    if args.len() < 2 {
        usage();
    }
    match args[1].as_str() {
        "run" => {
            if args.len() < 4 {
                usage();
            }
            let tier = match args[3].as_str() {
                "quick" => Tier::Quick,
                "thorough" => Tier::Thorough,
                _ => usage(),
            };
            let code = engines::run(&args[2], tier);
            std::process::exit(code);
        }
        "replay" => {
            if args.len() < 3 {
                usage();
            }
            let text = std::fs::read_to_string(&args[2]).unwrap_or_else(|e| machinery_failure(&format!("cannot read {}: {e}", args[2])));
            let replay: Replay = serde_json::from_str(&text).unwrap_or_else(|e| machinery_failure(&format!("bad replay file: {e}")));
            std::process::exit(engines::replay(&replay));
        }
        _ => usage(),
    }
}
