//! Run the real `scrut` binary in a private sandbox (own TMPDIR, HOME, cwd, process group).

use std::os::unix::process::CommandExt;
use std::path::{Path, PathBuf};
use std::process::{Command, Stdio};
use std::time::{Duration, Instant};

use crate::core::machinery_failure;
use crate::execs::Scratch;

pub fn scrut_bin() -> PathBuf {
    let p = std::env::var("VERIF_SCRUT_BIN").unwrap_or_else(|_| "/verif/target/bin/debug/scrut".into());
    let p = PathBuf::from(p);
    if !p.exists() {
        machinery_failure(&format!("scrut binary {} not built", p.display()));
    }
    p
}

pub struct Sandbox {
    pub scratch: Scratch,
    pub docs: PathBuf,
    pub tmpdir: PathBuf,
    pub home: PathBuf,
}

impl Sandbox {
    pub fn new() -> Self {
        let scratch = Scratch::new();
        // awkward on purpose: blanks and non-ASCII letters in every path scrut gets to see
        let docs = scratch.sub("do cs \u{fc}");
        // blanks, a non-ASCII letter, and characters that are special inside a double-quoted shell word or in scrut's script template
        let tmpdir = scratch.sub("tmp dir \u{e9} $x `y` \"q {name}");
        let home = scratch.sub("ho me");
        Self { scratch, docs, tmpdir, home }
    }
    pub fn write(&self, rel: &str, content: &[u8]) -> PathBuf {
        let p = self.docs.join(rel);
        if let Some(parent) = p.parent() {
            let _ = std::fs::create_dir_all(parent);
        }
        std::fs::write(&p, content).unwrap_or_else(|e| machinery_failure(&format!("write {}: {e}", p.display())));
        p
    }
    /// entries left in the private TMPDIR
    pub fn tmp_entries(&self) -> Vec<String> {
        let mut v: Vec<String> = std::fs::read_dir(&self.tmpdir).map(|r| r.filter_map(|e| e.ok()).map(|e| e.file_name().to_string_lossy().to_string()).collect()).unwrap_or_default();
        v.sort();
        v
    }
}

pub struct CliRun {
    pub status: Option<i32>,
    pub stdout: Vec<u8>,
    pub stderr: Vec<u8>,
    pub wall: Duration,
    pub timed_out: bool,
}

impl CliRun {
    pub fn stdout_str(&self) -> String {
        String::from_utf8_lossy(&self.stdout).to_string()
    }
    pub fn stderr_str(&self) -> String {
        String::from_utf8_lossy(&self.stderr).to_string()
    }
    /// results of `-r json`: (kind per entry)
    pub fn json_kinds(&self) -> Result<Vec<String>, String> {
        let v: serde_json::Value = serde_json::from_slice(&self.stdout).map_err(|e| format!("stdout is not JSON ({e}): {:?}", self.stdout_str().chars().take(300).collect::<String>()))?;
        let arr = v.as_array().ok_or("not an array")?;
        Ok(arr.iter().map(|e| e.get("result").and_then(|r| r.get("kind")).and_then(|k| k.as_str()).unwrap_or("<none>").to_string()).collect())
    }
}

impl CliRun {
    /// results of `-r json`: (title, kind) per entry
    pub fn json_results(&self) -> Result<Vec<(String, String)>, String> {
        let v: serde_json::Value = serde_json::from_slice(&self.stdout).map_err(|e| format!("stdout is not JSON ({e}): {:?}", self.stdout_str().chars().take(300).collect::<String>()))?;
        let arr = v.as_array().ok_or("not an array")?;
        Ok(arr
            .iter()
            .map(|e| {
                let kind = e.get("result").and_then(|r| r.get("kind")).and_then(|k| k.as_str()).unwrap_or("<none>").to_string();
                let title = e.get("title").and_then(|t| t.as_str()).or_else(|| e.get("testcase").and_then(|t| t.get("title")).and_then(|t| t.as_str())).unwrap_or("<no title>").to_string();
                (title, kind)
            })
            .collect())
    }
}

/// run `scrut <args>` with cwd = sandbox docs directory; extra_env is added to a minimal environment
pub fn run_scrut(sb: &Sandbox, args: &[&str], extra_env: &[(&str, String)], limit: Duration) -> CliRun {
    run_scrut_observed(sb, args, extra_env, limit, &mut || {})
}

/// like `run_scrut`; `observe` runs after scrut has exited and before its left-over process group is killed
pub fn run_scrut_observed(sb: &Sandbox, args: &[&str], extra_env: &[(&str, String)], limit: Duration, observe: &mut dyn FnMut()) -> CliRun {
    let mut cmd = Command::new(scrut_bin());
    cmd.args(args)
        .current_dir(&sb.docs)
        .env_clear()
        .env("PATH", "/usr/local/bin:/usr/bin:/bin")
        .env("HOME", &sb.home)
        .env("TMPDIR", &sb.tmpdir)
        .env("LANG", "C.UTF-8")
        .env("NO_COLOR", "1")
        .env("RUST_BACKTRACE", "0")
        .stdin(Stdio::null())
        .stdout(Stdio::piped())
        .stderr(Stdio::piped())
        .process_group(0);
    for (k, v) in extra_env {
        cmd.env(k, v);
    }
    let t0 = Instant::now();
    let child = cmd.spawn().unwrap_or_else(|e| machinery_failure(&format!("cannot start scrut: {e}")));
    let pid = child.id() as i32;
    // reader threads via wait_with_output in a helper thread, with a wall cap
    let (tx, rx) = std::sync::mpsc::channel();
    std::thread::spawn(move || {
        let _ = tx.send(child.wait_with_output());
    });
    let (out, timed_out) = match rx.recv_timeout(limit) {
        Ok(Ok(o)) => (Some(o), false),
        Ok(Err(e)) => machinery_failure(&format!("waiting for scrut failed: {e}")),
        Err(_) => {
            unsafe {
                libc::killpg(pid, libc::SIGKILL);
            }
            (rx.recv_timeout(Duration::from_secs(10)).ok().and_then(|r| r.ok()), true)
        }
    };
    let wall = t0.elapsed();
    observe();
    // whatever the run left behind in its process group is killed after the observation
    unsafe {
        libc::killpg(pid, libc::SIGKILL);
    }
    match out {
        Some(o) => CliRun { status: o.status.code(), stdout: o.stdout, stderr: o.stderr, wall, timed_out },
        None => CliRun { status: None, stdout: vec![], stderr: vec![], wall, timed_out },
    }
}

pub fn exists_process(pid: i32) -> bool {
    // a zombie still "exists" for kill(0): consult /proc for the state
    match std::fs::read_to_string(format!("/proc/{pid}/stat")) {
        Ok(s) => {
            let state = s.rsplit(')').next().and_then(|r| r.split_whitespace().next()).unwrap_or("Z");
            state != "Z" && state != "X"
        }
        Err(_) => false,
    }
}

#[allow(dead_code)]
pub fn path_str(p: &Path) -> String {
    p.to_string_lossy().to_string()
}
