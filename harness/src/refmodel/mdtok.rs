//! Reference tokenizer for Markdown test documents (C06, C10), written from the
//! documentation and the property statement, not from the implementation.
//!
//! * a fence opens at column 0 with >= 3 backticks followed by an info string free of
//!   backticks, and closes at a line of at least as many backticks (and nothing else)
//! * only blocks whose language is `scrut` yield tests; front-matter only before content
//! * block body: comment lines, `$ cmd`, `> cont`*, then expectation lines / one `[n]`

#[derive(Clone, Debug, PartialEq)]
pub struct RefTest {
    pub title: Option<String>, // None = ambiguous, not compared
    pub shell_expression: String,
    pub expectations: Vec<String>,
    pub exit_code: Option<i32>,
    pub inline_config: Option<String>, // text between the braces
    pub line_number: usize,            // 1-based line of the `$` line
}

#[derive(Clone, Debug, PartialEq)]
pub enum Body {
    Test { cmd: Vec<String>, expectations: Vec<String>, exit_code: Option<i32>, dollar_index: usize },
    NoTest,
    Unspecified(&'static str),
}

#[derive(Clone, Debug, PartialEq)]
pub enum Unterminated {
    FrontMatter { rest: Vec<String> },
    /// scrut fence: what reading to the end of the document yields
    ScrutFence { body: Body },
    OtherFence,
}

/// line classification used by C10
#[derive(Clone, Debug, PartialEq)]
pub enum LineClass {
    Outside,
    FrontMatter,
    VerbatimBlock,
    /// index of the scrut block, role within it
    ScrutOpen(usize),
    ScrutComment(usize),
    ScrutBody(usize),
    ScrutClose(usize),
}

#[derive(Clone, Debug, Default)]
pub struct RefDoc {
    pub tests: Vec<RefTest>,
    pub front_matter: Option<Vec<String>>,
    pub unterminated: Option<Unterminated>,
    /// some construct is outside what the documentation defines; only no-crash is required
    pub unspecified: Option<&'static str>,
    /// text behind the language of a scrut fence that is not one `{...}` group: the document has to be rejected
    pub malformed_config: bool,
    /// a fence without language: the implementation is expected to reject the document
    pub has_bare_fence: bool,
    pub classes: Vec<LineClass>,
    /// (language, config text) per scrut block, and whether it yields a test
    pub blocks: Vec<(String, Option<String>, bool)>,
    pub fences: usize,
}

/// (number of backticks, language, config) if the line opens a fence
pub fn parse_fence(line: &str) -> Option<(usize, String, Option<String>)> {
    let n = line.chars().take_while(|c| *c == '`').count();
    if n < 3 {
        return None;
    }
    let info = &line[n..];
    if info.contains('`') {
        return None;
    }
    let (lang, config) = match info.find('{') {
        Some(p) => (info[..p].trim(), Some(info[p..].trim_end().to_string())),
        None => (info.trim(), None),
    };
    Some((n, lang.to_string(), config))
}

fn is_closing(line: &str, n: usize) -> bool {
    let k = line.chars().take_while(|c| *c == '`').count();
    k >= n && line[k..].trim().is_empty()
}

fn starts_with_ticks(line: &str, n: usize) -> bool {
    line.chars().take_while(|c| *c == '`').count() >= n
}

fn exit_code(line: &str) -> Option<i32> {
    let inner = line.strip_prefix('[')?.strip_suffix(']')?;
    if inner.is_empty() || !inner.chars().all(|c| c.is_ascii_digit()) {
        return None;
    }
    inner.parse().ok()
}

/// reason recorded in `RefDoc::unspecified` for a block with expectation / exit code lines before its `$` line: such lines
/// are nobody's; the document is rejected or they are dropped, they never become part of the command's test
pub const ORPHANS: &str = "non-comment line before the `$` line";

/// does the block have non-comment lines before its first `$` line?
pub fn has_orphans(body: &[String]) -> bool {
    let first_dollar = body.iter().position(|l| l.starts_with("$ "));
    match first_dollar {
        Some(j) => body[..j].iter().any(|l| !l.starts_with('#')),
        None => false,
    }
}

pub fn parse_body(body: &[String]) -> Body {
    let mut k = 0;
    while k < body.len() && body[k].starts_with('#') {
        k += 1;
    }
    if k == body.len() {
        return Body::NoTest;
    }
    // a block that holds nothing but exit code lines has no command and therefore no test;
    // it must not influence any other block
    if body[k..].iter().all(|l| exit_code(l).is_some()) && body[k..].len() == 1 {
        return Body::NoTest;
    }
    // lines before the first `$` line belong to no test (see ORPHANS)
    while k < body.len() && !body[k].starts_with("$ ") {
        k += 1;
    }
    if k == body.len() {
        return Body::Unspecified("body lines, but no `$` line");
    }
    let first = &body[k][2..];
    let dollar_index = k;
    let mut cmd = vec![first.to_string()];
    k += 1;
    while k < body.len() {
        if let Some(c) = body[k].strip_prefix("> ") {
            cmd.push(c.to_string());
            k += 1;
        } else {
            break;
        }
    }
    let mut expectations = vec![];
    let mut code = None;
    for l in &body[k..] {
        if let Some(c) = exit_code(l) {
            if code.is_some() {
                return Body::Unspecified("two exit code lines");
            }
            code = Some(c);
        } else {
            expectations.push(l.clone());
        }
    }
    Body::Test { cmd, expectations, exit_code: code, dollar_index }
}

fn title_of(line: &str) -> Option<String> {
    let t = line.trim();
    if t.chars().next().map(|c| c.is_alphabetic()).unwrap_or(false) {
        return Some(t.to_string());
    }
    // header: one or more '#', whitespace, text
    let hashes = t.chars().take_while(|c| *c == '#').count();
    if hashes > 0 {
        let rest = &t[hashes..];
        let ws = rest.chars().take_while(|c| c.is_whitespace()).count();
        if ws > 0 && !rest.trim().is_empty() {
            let skip: usize = rest.chars().take(ws).map(|c| c.len_utf8()).sum();
            return Some(rest[skip..].to_string());
        }
    }
    None
}

pub fn tokenize(text: &str) -> RefDoc {
    let lines: Vec<String> = text.lines().map(|l| l.to_string()).collect();
    let mut doc = RefDoc::default();
    doc.classes = vec![LineClass::Outside; lines.len()];
    let mut i = 0;
    let mut content_started = false;
    let mut seen_front_matter = false;
    // title state
    let mut paragraph: Vec<String> = vec![];
    let mut in_paragraph = false;
    let mut title_ambiguous = false;
    let mut after_block = false; // directly after a code block, no blank line yet
    let mut after_heading = false; // the previous line was a heading

    while i < lines.len() {
        let line = &lines[i];
        if !content_started && line == "---" {
            if seen_front_matter {
                doc.unspecified = Some("second front-matter");
            }
            seen_front_matter = true;
            match (i + 1..lines.len()).find(|j| lines[*j] == "---") {
                None => {
                    doc.unterminated = Some(Unterminated::FrontMatter { rest: lines[i + 1..].to_vec() });
                    for c in doc.classes[i..].iter_mut() {
                        *c = LineClass::FrontMatter;
                    }
                    return doc;
                }
                Some(j) => {
                    doc.front_matter = Some(lines[i + 1..j].to_vec());
                    for c in doc.classes[i..=j].iter_mut() {
                        *c = LineClass::FrontMatter;
                    }
                    i = j + 1;
                    continue;
                }
            }
        }
        if let Some((n, lang, config)) = parse_fence(line) {
            content_started = true;
            doc.fences += 1;
            // find the closing fence; anything that merely starts with enough backticks is undefined
            let mut close = None;
            for j in i + 1..lines.len() {
                if is_closing(&lines[j], n) {
                    close = Some(j);
                    break;
                }
                if starts_with_ticks(&lines[j], n) {
                    doc.unspecified = Some("line starting with a fence-length run of backticks inside a block");
                }
            }
            let is_scrut = lang == "scrut";
            if lang.is_empty() {
                doc.has_bare_fence = true;
            }
            let end = close.unwrap_or(lines.len());
            let body: Vec<String> = lines[i + 1..end.min(lines.len())].to_vec();
            if is_scrut {
                let bidx = doc.blocks.len();
                let parsed = parse_body(&body);
                doc.classes[i] = LineClass::ScrutOpen(bidx);
                let mut leading = true;
                for (o, l) in body.iter().enumerate() {
                    if leading && l.starts_with('#') {
                        doc.classes[i + 1 + o] = LineClass::ScrutComment(bidx);
                    } else {
                        leading = false;
                        doc.classes[i + 1 + o] = LineClass::ScrutBody(bidx);
                    }
                }
                if let Some(j) = close {
                    doc.classes[j] = LineClass::ScrutClose(bidx);
                }
                // blanks after the closing brace do not count; a group that holds nothing but blanks is no configuration
                let cfg = config.as_ref().map(|c| c.trim_end()).and_then(|c| c.strip_prefix('{')).and_then(|c| c.strip_suffix('}')).map(|c| c.to_string()).filter(|c| !c.trim().is_empty());
                let empty_group = config.as_ref().map(|c| c.trim_end()).and_then(|c| c.strip_prefix('{')).and_then(|c| c.strip_suffix('}')).map(|c| c.trim().is_empty()).unwrap_or(false);
                if config.is_some() && cfg.is_none() && !empty_group {
                    doc.malformed_config = true;
                }
                doc.blocks.push((lang.clone(), cfg.clone(), matches!(parsed, Body::Test { .. })));
                if close.is_none() {
                    doc.unterminated = Some(Unterminated::ScrutFence { body: parsed.clone() });
                }
                if has_orphans(&body) && doc.unspecified.is_none() {
                    doc.unspecified = Some(ORPHANS);
                }
                match &parsed {
                    Body::Test { cmd, expectations, exit_code, dollar_index } => {
                        let title = if title_ambiguous { None } else { Some(paragraph.join("\n")) };
                        if close.is_some() {
                            doc.tests.push(RefTest {
                                title,
                                shell_expression: cmd.join("\n"),
                                expectations: expectations.clone(),
                                exit_code: *exit_code,
                                inline_config: cfg,
                                line_number: i + 1 + dollar_index + 1,
                            });
                        } else {
                            doc.unterminated = Some(Unterminated::ScrutFence {
                                body: Body::Test { cmd: cmd.clone(), expectations: expectations.clone(), exit_code: *exit_code, dollar_index: i + 1 + dollar_index + 1 },
                            });
                        }
                        paragraph.clear();
                        title_ambiguous = false;
                    }
                    Body::NoTest => {
                        // whether a block without command consumes the title is not defined
                        if !paragraph.is_empty() {
                            title_ambiguous = true;
                        }
                    }
                    Body::Unspecified(why) => doc.unspecified = Some(why),
                }
            } else {
                for c in doc.classes[i..=end.min(lines.len() - 1)].iter_mut() {
                    *c = LineClass::VerbatimBlock;
                }
                if close.is_none() {
                    doc.unterminated = Some(Unterminated::OtherFence);
                }
            }
            in_paragraph = false;
            // a code block of any language ends the paragraph before it: a title line glued to its closing fence starts a
            // new title
            after_block = false;
            match close {
                Some(j) => i = j + 1,
                None => return doc,
            }
            continue;
        }
        // prose
        if !line.trim().is_empty() {
            content_started = true;
        }
        match title_of(line) {
            Some(t) => {
                // a heading is a title of its own: it neither continues the lines before it nor is continued by the next line
                let heading = line.trim().starts_with('#');
                if !in_paragraph || heading || after_heading {
                    paragraph.clear();
                    title_ambiguous = after_block; // paragraph glued to a code block: not compared
                }
                paragraph.push(t);
                in_paragraph = true;
                after_heading = heading;
            }
            None => {
                in_paragraph = false;
                after_heading = false;
                if !line.trim().is_empty() {
                    // a non-title prose line (e.g. starting with punctuation) between title and test:
                    // "nearest preceding heading or paragraph" is then not clearly defined
                    if !paragraph.is_empty() {
                        title_ambiguous = true;
                    }
                }
                after_block = false;
            }
        }
        if line.trim().is_empty() {
            after_block = false;
        }
        i += 1;
    }
    doc
}
