pub mod nfa;
