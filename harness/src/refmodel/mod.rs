pub mod nfa;
pub mod rules;
pub mod mdtok;
pub mod cramtok;
