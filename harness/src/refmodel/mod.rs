pub mod nfa;
pub mod rules;
