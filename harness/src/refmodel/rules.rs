//! Reference models for the rule kinds (C04) and the escape decoder (C04/C11).

use std::collections::BTreeSet;

use serde::{Deserialize, Serialize};

/// One-pass decoder of the documented escape sequences. None = malformed.
pub fn decode_escaped(expr: &str) -> Option<Vec<u8>> {
    let chars: Vec<char> = expr.chars().collect();
    let mut out = vec![];
    let mut i = 0;
    let mut buf = [0u8; 4];
    while i < chars.len() {
        let c = chars[i];
        i += 1;
        if c != '\\' {
            out.extend_from_slice(c.encode_utf8(&mut buf).as_bytes());
            continue;
        }
        let Some(&d) = chars.get(i) else { return None };
        i += 1;
        match d {
            'a' => out.push(0x07),
            'b' => out.push(0x08),
            'e' => out.push(0x1b),
            'f' => out.push(0x0c),
            'r' => out.push(b'\r'),
            't' => out.push(b'\t'),
            'v' => out.push(0x0b),
            '\\' => out.push(b'\\'),
            'x' => {
                let (h1, h2) = (*chars.get(i)?, *chars.get(i + 1)?);
                i += 2;
                let v = h1.to_digit(16)? * 16 + h2.to_digit(16)?;
                out.push(v as u8);
            }
            '0' => {
                let (o1, o2) = (*chars.get(i)?, *chars.get(i + 1)?);
                i += 2;
                let v = o1.to_digit(8)? * 8 + o2.to_digit(8)?;
                out.push(v as u8);
            }
            other => {
                out.push(b'\\');
                out.extend_from_slice(other.encode_utf8(&mut buf).as_bytes());
            }
        }
    }
    Some(out)
}

/// strip exactly one final LF, if any
pub fn strip_lf(line: &[u8]) -> &[u8] {
    if line.last() == Some(&b'\n') {
        &line[..line.len() - 1]
    } else {
        line
    }
}

/// textbook glob over chars: `?` = exactly one char, `*` = any run of chars
pub fn glob_match(pat: &[char], text: &[char]) -> bool {
    match pat.first() {
        None => text.is_empty(),
        Some('*') => (0..=text.len()).any(|k| glob_match(&pat[1..], &text[k..])),
        Some('?') => !text.is_empty() && glob_match(&pat[1..], &text[1..]),
        Some(c) => text.first() == Some(c) && glob_match(&pat[1..], &text[1..]),
    }
}

#[derive(Clone, Debug, Serialize, Deserialize, Hash, PartialEq, Eq)]
pub enum Ast {
    /// 0 = a, 1 = b, 2 = . (any char), 3 = [ab]
    Atom(u8),
    Cat(Box<Ast>, Box<Ast>),
    Alt(Box<Ast>, Box<Ast>),
    Star(Box<Ast>),
    Opt(Box<Ast>),
    Plus(Box<Ast>),
    Group(Box<Ast>),
}

impl Ast {
    pub fn size(&self) -> usize {
        match self {
            Ast::Atom(_) => 1,
            Ast::Cat(a, b) | Ast::Alt(a, b) => 1 + a.size() + b.size(),
            Ast::Star(a) | Ast::Opt(a) | Ast::Plus(a) | Ast::Group(a) => 1 + a.size(),
        }
    }

    /// render with minimal parentheses (top-level alternation stays bare)
    pub fn render(&self) -> String {
        match self {
            Ast::Atom(0) => "a".into(),
            Ast::Atom(1) => "b".into(),
            Ast::Atom(2) => ".".into(),
            Ast::Atom(_) => "[ab]".into(),
            Ast::Cat(a, b) => {
                let f = |x: &Ast| if matches!(x, Ast::Alt(..)) { format!("({})", x.render()) } else { x.render() };
                format!("{}{}", f(a), f(b))
            }
            Ast::Alt(a, b) => format!("{}|{}", a.render(), b.render()),
            Ast::Star(a) => format!("{}*", Self::operand(a)),
            Ast::Opt(a) => format!("{}?", Self::operand(a)),
            Ast::Plus(a) => format!("{}+", Self::operand(a)),
            Ast::Group(a) => format!("({})", a.render()),
        }
    }

    fn operand(a: &Ast) -> String {
        match a {
            Ast::Atom(_) | Ast::Group(_) => a.render(),
            _ => format!("({})", a.render()),
        }
    }

    /// set of end positions when matching from position i
    fn ends(&self, s: &[char], i: usize) -> BTreeSet<usize> {
        let mut out = BTreeSet::new();
        match self {
            Ast::Atom(k) => {
                if let Some(c) = s.get(i) {
                    let ok = match k {
                        0 => *c == 'a',
                        1 => *c == 'b',
                        2 => *c != '\n',
                        _ => *c == 'a' || *c == 'b',
                    };
                    if ok {
                        out.insert(i + 1);
                    }
                }
            }
            Ast::Cat(a, b) => {
                for m in a.ends(s, i) {
                    out.extend(b.ends(s, m));
                }
            }
            Ast::Alt(a, b) => {
                out.extend(a.ends(s, i));
                out.extend(b.ends(s, i));
            }
            Ast::Group(a) => out = a.ends(s, i),
            Ast::Opt(a) => {
                out.insert(i);
                out.extend(a.ends(s, i));
            }
            Ast::Star(a) | Ast::Plus(a) => {
                let mut frontier: BTreeSet<usize> = BTreeSet::new();
                frontier.insert(i);
                let mut reach: BTreeSet<usize> = BTreeSet::new();
                if matches!(self, Ast::Star(_)) {
                    reach.insert(i);
                }
                let mut seen: BTreeSet<usize> = BTreeSet::new();
                while let Some(p) = frontier.pop_first() {
                    if !seen.insert(p) {
                        continue;
                    }
                    for e in a.ends(s, p) {
                        reach.insert(e);
                        frontier.insert(e);
                    }
                }
                out = reach;
            }
        }
        out
    }

    /// whole-line match
    pub fn full_match(&self, s: &[char]) -> bool {
        self.ends(s, 0).contains(&s.len())
    }
}

/// all ASTs of exactly the given size
pub fn asts_of_size(n: usize, memo: &mut Vec<Vec<Ast>>) -> Vec<Ast> {
    while memo.len() <= n {
        let k = memo.len();
        let mut v = vec![];
        if k == 1 {
            for a in 0..4u8 {
                v.push(Ast::Atom(a));
            }
        } else if k >= 2 {
            for a in &memo[k - 1] {
                v.push(Ast::Star(Box::new(a.clone())));
                v.push(Ast::Opt(Box::new(a.clone())));
                v.push(Ast::Plus(Box::new(a.clone())));
                v.push(Ast::Group(Box::new(a.clone())));
            }
            for l in 1..k - 1 {
                let r = k - 1 - l;
                if r < 1 {
                    continue;
                }
                for a in &memo[l] {
                    for b in &memo[r] {
                        v.push(Ast::Cat(Box::new(a.clone()), Box::new(b.clone())));
                        v.push(Ast::Alt(Box::new(a.clone()), Box::new(b.clone())));
                    }
                }
            }
        }
        memo.push(v);
    }
    memo[n].clone()
}
