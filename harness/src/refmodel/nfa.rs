//! Reference model for C01/C03: the language e1{q1} e2{q2} ... en{qn} over lines,
//! given only the boolean match matrix and the quantifier vector.

#[derive(Clone, Copy, Debug, PartialEq, Eq, Hash, serde::Serialize, serde::Deserialize)]
pub enum Quant {
    One,      // exactly one line
    Optional, // ?  zero or one
    Star,     // *  zero or more
    Plus,     // +  one or more
}

impl Quant {
    pub const ALL: [Quant; 4] = [Quant::One, Quant::Optional, Quant::Star, Quant::Plus];
    pub fn optional(self) -> bool {
        matches!(self, Quant::Optional | Quant::Star)
    }
    pub fn multiline(self) -> bool {
        matches!(self, Quant::Star | Quant::Plus)
    }
    pub fn suffix(self) -> &'static str {
        match self {
            Quant::One => "",
            Quant::Optional => "?",
            Quant::Star => "*",
            Quant::Plus => "+",
        }
    }
}

/// m[i][j] = expectation i matches line j
pub struct Model<'a> {
    pub q: &'a [Quant],
    pub m: &'a [Vec<bool>],
    pub lines: usize,
}

impl<'a> Model<'a> {
    /// follow set of state s (0 = start, i = last line consumed by expectation i (1-based))
    fn follow(&self, s: usize) -> Vec<usize> {
        let n = self.q.len();
        let mut f = vec![];
        if s > 0 && self.q[s - 1].multiline() {
            f.push(s);
        }
        let mut j = s + 1;
        while j <= n {
            f.push(j);
            if !self.q[j - 1].optional() {
                break;
            }
            j += 1;
        }
        f
    }

    fn accepting(&self, s: usize) -> bool {
        (s..self.q.len()).all(|k| self.q[k].optional())
    }

    /// (accepted, deterministic)
    pub fn run(&self) -> (bool, bool) {
        let n = self.q.len();
        let mut cur = vec![false; n + 1];
        cur[0] = true;
        let mut det = true;
        for j in 0..self.lines {
            let mut next = vec![false; n + 1];
            for s in 0..=n {
                if !cur[s] {
                    continue;
                }
                let mut cnt = 0;
                for t in self.follow(s) {
                    if self.m[t - 1][j] {
                        cnt += 1;
                        next[t] = true;
                    }
                }
                if cnt > 1 {
                    det = false;
                }
            }
            cur = next;
        }
        let acc = (0..=n).any(|s| cur[s] && self.accepting(s));
        (acc, det)
    }
}
