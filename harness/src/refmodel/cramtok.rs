//! Reference tokenizer for Cram documents (C07), written from the documentation / property.

#[derive(Clone, Debug, PartialEq)]
pub struct CramRefTest {
    /// acceptable titles (the nearest preceding title line; for later tests under the same
    /// title also "", because the unit tests pin that a title is consumed by the first test)
    pub titles: Vec<String>,
    pub shell_expression: String,
    pub expectations: Vec<String>,
    pub exit_code: Option<i32>,
    pub line_number: usize,
    /// body lines without a command directly precede this test: its content is unspecified
    pub tainted: bool,
}

#[derive(Clone, Debug, Default)]
pub struct CramRefDoc {
    pub tests: Vec<CramRefTest>,
    /// a construct for which an error is the expected/acceptable reaction only
    pub unspecified: Option<&'static str>,
    pub orphans: usize,
}

fn exit_code(line: &str) -> Option<i32> {
    let inner = line.strip_prefix('[')?.strip_suffix(']')?;
    if inner.is_empty() || !inner.chars().all(|c| c.is_ascii_digit()) {
        return None;
    }
    inner.parse().ok()
}

pub fn tokenize(text: &str) -> CramRefDoc {
    let mut doc = CramRefDoc::default();
    let mut title: Option<String> = None;
    let mut title_used = false;
    let mut open: Option<CramRefTest> = None;
    let mut in_command = false;
    let mut orphan_pending = false;
    for (idx, line) in text.lines().enumerate() {
        if line.starts_with('#') {
            continue;
        }
        if line.is_empty() {
            if let Some(t) = open.take() {
                doc.tests.push(t);
            }
            in_command = false;
            orphan_pending = false;
            continue;
        }
        if let Some(body) = line.strip_prefix("  ") {
            if let Some(cmd) = body.strip_prefix("$ ") {
                if let Some(t) = open.take() {
                    doc.tests.push(t);
                }
                let titles = match (&title, title_used) {
                    (Some(t), false) => vec![t.clone()],
                    (Some(t), true) => vec![t.clone(), String::new()],
                    (None, _) => vec![String::new()],
                };
                title_used = true;
                open = Some(CramRefTest { titles, shell_expression: cmd.to_string(), expectations: vec![], exit_code: None, line_number: idx + 1, tainted: orphan_pending });
                orphan_pending = false;
                in_command = true;
                continue;
            }
            match open.as_mut() {
                None => {
                    doc.orphans += 1;
                    orphan_pending = true;
                }
                Some(t) => {
                    if in_command {
                        if let Some(c) = body.strip_prefix("> ") {
                            t.shell_expression.push('\n');
                            t.shell_expression.push_str(c);
                            continue;
                        }
                    }
                    in_command = false;
                    if let Some(c) = exit_code(body) {
                        if t.exit_code.is_some() {
                            doc.unspecified = Some("two exit code lines in one test");
                        }
                        t.exit_code = Some(c);
                    } else {
                        t.expectations.push(body.to_string());
                    }
                }
            }
            continue;
        }
        // unindented, non-empty, not a comment: a title line; ends the current test
        if let Some(t) = open.take() {
            doc.tests.push(t);
        }
        in_command = false;
        orphan_pending = false;
        title = Some(line.to_string());
        title_used = false;
    }
    if let Some(t) = open.take() {
        doc.tests.push(t);
    }
    doc
}
