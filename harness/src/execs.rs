//! Helpers to run test cases through scrut's real executors with the real bash,
//! in private scratch directories.

use std::path::{Path, PathBuf};

use scrut::config::DocumentConfig;
use scrut::executors::bash_runner::BashRunner;
use scrut::executors::bash_script_executor::BashScriptExecutor;
use scrut::executors::context::ContextBuilder;
use scrut::executors::error::ExecutionError;
use scrut::executors::executor::Executor;
use scrut::executors::stateful_executor::StatefulExecutor;
use scrut::output::Output;
use scrut::testcase::TestCase;

use crate::core::machinery_failure;

pub const BASH: &str = "/bin/bash";

/// root for scratch directories of this process (removed by `cleanup_work_root`)
pub fn work_root() -> PathBuf {
    let p = PathBuf::from(format!("/verif/.work/{}", std::process::id()));
    if let Err(e) = std::fs::create_dir_all(&p) {
        machinery_failure(&format!("cannot create scratch directory {}: {e}", p.display()));
    }
    p
}

pub fn cleanup_work_root() {
    let _ = std::fs::remove_dir_all(format!("/verif/.work/{}", std::process::id()));
}

pub struct Scratch {
    pub dir: tempfile::TempDir,
}

impl Scratch {
    pub fn new() -> Self {
        let dir = tempfile::Builder::new().prefix("c.").tempdir_in(work_root()).unwrap_or_else(|e| machinery_failure(&format!("cannot create scratch dir: {e}")));
        Self { dir }
    }
    pub fn path(&self) -> &Path {
        self.dir.path()
    }
    pub fn sub(&self, name: &str) -> PathBuf {
        let p = self.dir.path().join(name);
        let _ = std::fs::create_dir_all(&p);
        p
    }
}

#[derive(Clone, Copy, Debug, PartialEq, Eq, Hash, serde::Serialize, serde::Deserialize)]
pub enum Exec {
    Stateful,
    Script,
}

/// run the test cases with the chosen executor; work and temp directory inside `scratch`
pub fn execute(exec: Exec, testcases: &[TestCase], config: DocumentConfig, scratch: &Scratch) -> Result<Vec<Output>, ExecutionError> {
    // nested, so that a few `cd ..` in a test stay inside the private scratch directory
    let work = scratch.sub("n1/n2/n3/work");
    let tmp = scratch.sub("tmp");
    let ctx = ContextBuilder::default()
        .work_directory(work)
        .temp_directory(tmp)
        .file(PathBuf::from("doc.md"))
        .config(config)
        .build()
        .unwrap_or_else(|e| machinery_failure(&format!("context: {e}")));
    let refs: Vec<&TestCase> = testcases.iter().collect();
    match exec {
        Exec::Stateful => StatefulExecutor::new(BashRunner::stateful_generator(Path::new(BASH))).execute_all(&refs, &ctx),
        Exec::Script => BashScriptExecutor::new(Path::new(BASH)).execute_all(&refs, &ctx),
    }
}

/// printf argument that emits exactly these bytes
pub fn printf_octal(bytes: &[u8]) -> String {
    let mut s = String::new();
    for b in bytes {
        s.push_str(&format!("\\{:03o}", b));
    }
    s
}
