#!/bin/bash
# C16 violation 2: with --cram-compat (-C) on a Markdown document, the keys
# strip_ansi_escaping and wait that are set by the test case / document defaults
# layer are not in effect at all (BashScriptExecutor drops them).
# exit 0 = property holds, non-zero = violated
CO="${1:-/tmp/h_C16}"
S="$CO/target/debug/scrut"
[ -x "$S" ] || (cd "$CO" && cargo build --offline --bin scrut >/dev/null 2>&1)
[ -x "$S" ] || { echo "no scrut binary"; exit 99; }
D="$(mktemp -d)"; trap 'rm -rf "$D"' EXIT
cd "$D" || exit 99
rc=0

cat > ansi_inline.md <<'EOF'
# strip inline

```scrut {strip_ansi_escaping: true}
$ printf '\033[1mbold\033[0m\n'
bold
```
EOF
cat > ansi_defaults.md <<'EOF'
---
defaults:
  strip_ansi_escaping: true
---

# strip via defaults

```scrut
$ printf '\033[1mbold\033[0m\n'
bold
```
EOF
for f in ansi_inline.md ansi_defaults.md; do
  "$S" test --no-color "$f" > plain.out 2>&1 || { echo "unexpected: fails even without -C ($f)"; cat plain.out; rc=2; }
  "$S" test --no-color -C "$f" > cc.out 2>&1 || { echo "VIOLATED: strip_ansi_escaping: true from $f is not in effect under -C"; grep -E '^[ 0-9]+\| ' cc.out; rc=1; }
done

cat > wait.md <<'EOF'
# one

```scrut
$ date +%s%N > "$TMPDIR/../t0" 2>/dev/null; echo one
one
```

# two waits 2s before it starts

```scrut {wait: 2s}
$ echo two
two
```
EOF
t0=$(date +%s%N); "$S" test --no-color -C wait.md > w.out 2>&1; t1=$(date +%s%N)
ms=$(( (t1 - t0) / 1000000 ))
if [ "$ms" -lt 1900 ]; then echo "VIOLATED: inline wait: 2s not in effect under -C (whole run took ${ms}ms)"; rc=1; fi

[ $rc -eq 0 ] && echo "HOLDS"
exit $rc
