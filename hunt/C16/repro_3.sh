#!/bin/bash
# C16 violation 3 (cram-compat executor): `detached: true` set inline on the SECOND
# test case becomes the value in effect for the FIRST one as well (whole script runs
# detached -> run aborts), while the reverse order is rejected as "inconsistent".
# exit 0 = property holds (first test case validated, or a clean "inconsistent
# configuration" rejection), non-zero = violated
CO="${1:-/tmp/h_C16}"
S="$CO/target/debug/scrut"
[ -x "$S" ] || (cd "$CO" && cargo build --offline --bin scrut >/dev/null 2>&1)
[ -x "$S" ] || { echo "no scrut binary"; exit 99; }
D="$(mktemp -d)"; trap 'rm -rf "$D"' EXIT
cd "$D" || exit 99
cat > det.md <<'EOF'
# first not detached

```scrut
$ echo one
one
```

# second detached

```scrut {detached: true}
$ echo two
```
EOF
"$S" test --no-color -C det.md > out 2>&1; code=$?
if grep -q "exit code=detached" out; then
  echo "VIOLATED: test case 1 (detached unset in every layer) was executed detached because test case 2 sets detached inline"
  grep -m1 "ERROR" out
  exit 1
fi
if [ $code -eq 0 ] || grep -q "inconsistent configuration" out; then echo "HOLDS"; exit 0; fi
echo "unexpected outcome"; cat out; exit 2
