#!/bin/bash
# C16 repro 1: configured environment variable is not in effect when the
# previous test case left the variable with an attribute (integer, uppercase,
# array, nameref, readonly). Exit 0 = property holds, non-zero = violated.
CO="${1:-/tmp/h_C16}"
S="$CO/target/debug/scrut"
[ -x "$S" ] || (cd "$CO" && cargo build --offline --bin scrut >/dev/null 2>&1)
D="$(mktemp -d)"; trap 'rm -rf "$D"' EXIT
cat > "$D/t.md" <<'EOF'
---
defaults:
  environment:
    A: cfg
    B: cfg
    D: cfg
    F: cfg
    R: cfg
---
# setup: every variable is configured here as well (inline layer)
```scrut {environment: {A: x, B: x, D: x, F: x, R: x}}
$ declare -i A; declare -u B; declare -a D; declare -n F=TARGET; readonly R; echo ok
ok
```

# check: no inline config, so the document defaults (cfg) must be in effect
```scrut
$ echo "A=$A B=$B D=$D R=$R TARGET=${TARGET-unset}" 2>&1; bash -c 'echo "child A=$A B=$B D=${D-unset} F=${F-unset} R=$R"'
A=cfg B=cfg D=cfg R=cfg TARGET=unset
child A=cfg B=cfg D=cfg F=cfg R=cfg
```
EOF
cd "$D" && "$S" test t.md
