#!/bin/bash
# C16 violation 1: environment variables from the test case's inline config (or the
# document defaults) are replaced by the value an EARLIER test case ran with
# (stateful executor restores the persisted shell state over the configured env).
# exit 0 = property holds, non-zero = violated
CO="${1:-/tmp/h_C16}"
S="$CO/target/debug/scrut"
[ -x "$S" ] || (cd "$CO" && cargo build --offline --bin scrut >/dev/null 2>&1)
[ -x "$S" ] || { echo "no scrut binary"; exit 99; }
D="$(mktemp -d)"; trap 'rm -rf "$D"' EXIT
cd "$D" || exit 99
rc=0

# (a) document default FOO=doc, second test case overrides it inline
cat > a.md <<'EOF'
---
defaults:
  environment:
    FOO: doc
---

# first: document default

```scrut
$ echo "FOO=$FOO"
FOO=doc
```

# second: inline beats document default

```scrut {environment: {FOO: inline}}
$ echo "FOO=$FOO"
FOO=inline
```
EOF
"$S" test --no-color a.md > a.out 2>&1 || { echo "VIOLATED (a): inline environment does not beat document default in 2nd test case"; grep -E '^[ 0-9]+\| ' a.out; rc=1; }

# (b) two test cases, each with its own inline value
cat > b.md <<'EOF'
# one

```scrut {environment: {FOO: a}}
$ echo "FOO=$FOO"
FOO=a
```

# two

```scrut {environment: {FOO: b}}
$ echo "FOO=$FOO"
FOO=b
```
EOF
"$S" test --no-color b.md > b.out 2>&1 || { echo "VIOLATED (b): 2nd test case sees the inline value of the 1st"; grep -E '^[ 0-9]+\| ' b.out; rc=1; }

# (c) inline in first, document default must be back in effect in second
cat > c.md <<'EOF'
---
defaults:
  environment:
    FOO: doc
---

# one

```scrut {environment: {FOO: inline}}
$ echo "FOO=$FOO"
FOO=inline
```

# two

```scrut
$ echo "FOO=$FOO"
FOO=doc
```
EOF
"$S" test --no-color c.md > c.out 2>&1 || { echo "VIOLATED (c): document default not in effect after a test case that overrode it inline"; grep -E '^[ 0-9]+\| ' c.out; rc=1; }

[ $rc -eq 0 ] && echo "HOLDS"
exit $rc
