#!/bin/bash
# usage: repro_N.sh [checkout]   exit 0 = property holds, non-zero = violated
CO=${1:-/tmp/h_C10}
S=$CO/target/debug/scrut
[ -x "$S" ] || (cd "$CO" && cargo build --offline --bin scrut >/dev/null 2>&1)
[ -x "$S" ] || { echo "no scrut binary"; exit 99; }
W=$(mktemp -d); trap 'rm -rf "$W"' EXIT
cd "$W" || exit 99
upd() { "$S" update --replace -y --no-color "$1" >"$1.log" 2>&1; }
fail() { echo "VIOLATED: $*"; exit 1; }

# inline config followed by trailing whitespace is erased (even though all tests pass)
printf '# T\n\n```scrut {timeout: 5s} \n$ echo hi\nhi\n```\n\nend\n' > t.md
cp t.md orig.md
upd t.md || { echo "update failed"; exit 99; }
cat t.md
grep -q '{timeout: 5s}' t.md || fail "inline configuration {timeout: 5s} was removed from the block"
cmp -s orig.md t.md || fail "document with only passing tests was rewritten"
echo HOLDS
