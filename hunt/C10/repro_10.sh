#!/bin/bash
# usage: repro_N.sh [checkout]   exit 0 = property holds, non-zero = violated
CO=${1:-/tmp/h_C10}
S=$CO/target/debug/scrut
[ -x "$S" ] || (cd "$CO" && cargo build --offline --bin scrut >/dev/null 2>&1)
[ -x "$S" ] || { echo "no scrut binary"; exit 99; }
W=$(mktemp -d); trap 'rm -rf "$W"' EXIT
cd "$W" || exit 99
upd() { "$S" update --replace -y --no-color "$1" >"$1.log" 2>&1; }
fail() { echo "VIOLATED: $*"; exit 1; }

# passing tests: exit code line is moved / renormalised
printf '# T\n\n```scrut\n$ echo a; echo b; exit 3\na\n[3]\nb\n```\n\n```scrut\n$ echo a; exit 3\na\n[03]\n```\n\n```scrut\n$ echo x\nold\n```\n' > t.md
cp t.md orig.md
upd t.md || { echo "update failed"; exit 99; }
diff orig.md t.md
rc=0
[ "$(sed -n 4,8p orig.md)" == "$(sed -n 4,8p t.md)" ] || { echo "VIOLATED: lines of passing test 1 changed (exit code line moved)"; rc=1; }
[ "$(sed -n 11,14p orig.md)" == "$(sed -n 11,14p t.md)" ] || { echo "VIOLATED: lines of passing test 2 changed ([03] -> [3])"; rc=1; }
[ $rc == 0 ] && echo HOLDS
exit $rc
