#!/bin/bash
# usage: repro_N.sh [checkout]   exit 0 = property holds, non-zero = violated
CO=${1:-/tmp/h_C10}
S=$CO/target/debug/scrut
[ -x "$S" ] || (cd "$CO" && cargo build --offline --bin scrut >/dev/null 2>&1)
[ -x "$S" ] || { echo "no scrut binary"; exit 99; }
W=$(mktemp -d); trap 'rm -rf "$W"' EXIT
cd "$W" || exit 99
upd() { "$S" update --replace -y --no-color "$1" >"$1.log" 2>&1; }
fail() { echo "VIOLATED: $*"; exit 1; }

# inline config `{ }`: first update writes `{}`, second update removes it -> not idempotent
printf '# T\n\n```scrut { }\n$ echo hi\nhi\n```\n\nend\n' > t.md
upd t.md || { echo "update failed"; exit 99; }
cp t.md u1.md
upd t.md || { echo "update failed"; exit 99; }
cp t.md u2.md
diff u1.md u2.md || fail "second update changed the already updated document"
echo HOLDS
