#!/bin/bash
# usage: repro_N.sh [checkout]   exit 0 = property holds, non-zero = violated
CO=${1:-/tmp/h_C10}
S=$CO/target/debug/scrut
[ -x "$S" ] || (cd "$CO" && cargo build --offline --bin scrut >/dev/null 2>&1)
[ -x "$S" ] || { echo "no scrut binary"; exit 99; }
W=$(mktemp -d); trap 'rm -rf "$W"' EXIT
cd "$W" || exit 99
upd() { "$S" update --replace -y --no-color "$1" >"$1.log" 2>&1; }
fail() { echo "VIOLATED: $*"; exit 1; }

# a matched expectation `> x` moves directly under the command once the
# (unmatched) expectation in front of it is removed, and is read back as
# a continuation of the shell expression
printf '# T\n\n```scrut\n$ printf '"'"'> x\\n'"'"'\ngone\n> x\n```\n\nafter\n' > t.md
cp t.md orig.md
cmd() { "$S" test --no-color --renderer json "$1" 2>/dev/null | grep -o '"shell_expression":"[^"]*"'; }
c0=$(cmd orig.md)
upd t.md || { echo "update failed"; exit 99; }
cp t.md u1.md
c1=$(cmd u1.md)
upd t.md; cp t.md u2.md
echo "--- u1"; cat u1.md; echo "--- u2"; cat u2.md
rc=0
"$S" test --no-color u1.md >/dev/null 2>&1 || { echo "VIOLATED: updated document does not pass with the same outputs"; rc=1; }
[ -z "$c1" ] || [ "$c0" == "$c1" ] || { echo "VIOLATED: command changed: $c0 -> $c1"; rc=1; }
cmp -s u1.md u2.md || { echo "VIOLATED: second update changed the document again"; rc=1; }
[ $rc == 0 ] && echo HOLDS
exit $rc
