#!/bin/bash
# usage: repro_N.sh [checkout]   exit 0 = property holds, non-zero = violated
CO=${1:-/tmp/h_C10}
S=$CO/target/debug/scrut
[ -x "$S" ] || (cd "$CO" && cargo build --offline --bin scrut >/dev/null 2>&1)
[ -x "$S" ] || { echo "no scrut binary"; exit 99; }
W=$(mktemp -d); trap 'rm -rf "$W"' EXIT
cd "$W" || exit 99
upd() { "$S" update --replace -y --no-color "$1" >"$1.log" 2>&1; }
fail() { echo "VIOLATED: $*"; exit 1; }

# leading comments separated by an empty line: everything from the empty line on is dropped
printf '# T\n\n```scrut\n# c1\n\n# c2\n$ echo hi\nold\n```\n\nend\n' > t.md
upd t.md || { echo "update failed"; exit 99; }
cat t.md
grep -q '^# c2$' t.md || fail "comment line '# c2' of the block was removed"
echo HOLDS
