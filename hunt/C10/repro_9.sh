#!/bin/bash
# usage: repro_N.sh [checkout]   exit 0 = property holds, non-zero = violated
CO=${1:-/tmp/h_C10}
S=$CO/target/debug/scrut
[ -x "$S" ] || (cd "$CO" && cargo build --offline --bin scrut >/dev/null 2>&1)
[ -x "$S" ] || { echo "no scrut binary"; exit 99; }
W=$(mktemp -d); trap 'rm -rf "$W"' EXIT
cd "$W" || exit 99
upd() { "$S" update --replace -y --no-color "$1" >"$1.log" 2>&1; }
fail() { echo "VIOLATED: $*"; exit 1; }

# CRLF line endings of prose lines are rewritten to LF as soon as one test is updated
printf '# T\r\n\r\nprose\r\n\r\n```scrut\r\n$ echo hi\r\nold\r\n```\r\n\r\nend\r\n' > t.md
upd t.md || { echo "update failed"; exit 99; }
od -c t.md | head -3
[ "$(head -c 5 t.md | od -An -c | tr -d ' ')" == '#T\r\n' ] || fail "prose line '# T\\r\\n' was rewritten to '# T\\n'"
echo HOLDS
