#!/bin/bash
# usage: repro_N.sh [checkout]   exit 0 = property holds, non-zero = violated
CO=${1:-/tmp/h_C10}
S=$CO/target/debug/scrut
[ -x "$S" ] || (cd "$CO" && cargo build --offline --bin scrut >/dev/null 2>&1)
[ -x "$S" ] || { echo "no scrut binary"; exit 99; }
W=$(mktemp -d); trap 'rm -rf "$W"' EXIT
cd "$W" || exit 99
upd() { "$S" update --replace -y --no-color "$1" >"$1.log" 2>&1; }
fail() { echo "VIOLATED: $*"; exit 1; }

# (malformed) block with an expectation `> foo` in front of the command
printf '# T\n\n```scrut\n> foo\n$ echo "> foo"\n```\n\nend\n' > t.md
cp t.md orig.md
"$S" test --no-color orig.md >/dev/null 2>&1 || { echo "precondition: original must pass"; exit 99; }
upd t.md; cp t.md u1.md
upd t.md; cp t.md u2.md
echo "--- u1"; cat u1.md; echo "--- u2"; cat u2.md
rc=0
cmp -s orig.md u1.md || { echo "VIOLATED: lines of a passing test were rewritten"; rc=1; }
"$S" test --no-color u1.md >/dev/null 2>&1 || { echo "VIOLATED: updated document does not pass any more (command changed)"; rc=1; }
cmp -s u1.md u2.md || { echo "VIOLATED: second update changed the document again"; rc=1; }
[ $rc == 0 ] && echo HOLDS
exit $rc
