#!/bin/bash
# usage: repro_N.sh [checkout]   exit 0 = property holds, non-zero = violated
CO=${1:-/tmp/h_C10}
S=$CO/target/debug/scrut
[ -x "$S" ] || (cd "$CO" && cargo build --offline --bin scrut >/dev/null 2>&1)
[ -x "$S" ] || { echo "no scrut binary"; exit 99; }
W=$(mktemp -d); trap 'rm -rf "$W"' EXIT
cd "$W" || exit 99
upd() { "$S" update --replace -y --no-color "$1" >"$1.log" 2>&1; }
fail() { echo "VIOLATED: $*"; exit 1; }

# document whose last line has no newline: update appends one
printf '# T\n\n```scrut\n$ echo hi\nold\n```\n\nend without newline' > t.md
upd t.md || { echo "update failed"; exit 99; }
tail -c 20 t.md | od -c | tail -3
[ "$(tail -c 19 t.md)" == "end without newline" ] && [ "$(tail -c 1 t.md | od -An -c | tr -d ' ')" != '\n' ] || fail "text after the last test is not preserved byte for byte (newline appended)"
echo HOLDS
