#!/bin/bash
# usage: repro_N.sh [checkout]   exit 0 = property holds, non-zero = violated
CO=${1:-/tmp/h_C10}
S=$CO/target/debug/scrut
[ -x "$S" ] || (cd "$CO" && cargo build --offline --bin scrut >/dev/null 2>&1)
[ -x "$S" ] || { echo "no scrut binary"; exit 99; }
W=$(mktemp -d); trap 'rm -rf "$W"' EXIT
cd "$W" || exit 99
upd() { "$S" update --replace -y --no-color "$1" >"$1.log" 2>&1; }
fail() { echo "VIOLATED: $*"; exit 1; }

# BORDERLINE (title: "rewrites only failing expectations"): only the exit code
# differs, the matching glob expectation is replaced by the literal output
printf '# T\n\n```scrut\n$ echo abc; exit 2\na* (glob)\n[1]\n```\n\nend\n' > t.md
upd t.md || { echo "update failed"; exit 99; }
cat t.md
grep -q '^a\* (glob)$' t.md || fail "matching expectation 'a* (glob)' was rewritten although only the exit code failed"
echo HOLDS
