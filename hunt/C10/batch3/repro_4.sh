#!/bin/bash
# C10 (title reading: "rewrites only failing expectations"): expectations that
# are NOT failing are rewritten or dropped when the test fails for another reason.
# exit 0 = holds, 1 = violated
. "$(dirname "$0")/common.sh"
rc=0
f="$WORK/x.md"
cat > "$f" <<'DOC'
# only the exit code changed

```scrut
$ echo foo1; echo foo2; echo 2024-01-01; exit 3
foo* (glob+)
\d+-\d+-\d+ (regex)
```

# one expectation fails, the optional ones are satisfied

```scrut
$ echo a; echo c
zzz (?)
a
b* (glob*)
x
```
DOC
"$SCRUT" update --replace -y "$f" >"$WORK/log" 2>&1
for keep in 'foo* (glob+)' '\d+-\d+-\d+ (regex)' 'zzz (?)' 'b* (glob*)'; do
  if grep -qxF -- "$keep" "$f"; then echo "kept: $keep"; else echo "VIOLATED - non-failing expectation gone: $keep"; rc=1; fi
done
[ $rc = 0 ] || cat "$f"
exit $rc
