# sourced by the repro scripts: locate (or build) the scrut binary of the checkout
CO="${1:-/tmp/h_C10}"
SCRUT="$CO/target/debug/scrut"
if [ ! -x "$SCRUT" ]; then
  (cd "$CO" && cargo build --offline --bin scrut >/dev/null 2>&1) || { echo "build failed"; exit 99; }
fi
WORK="$(mktemp -d)"
trap 'rm -rf "$WORK"' EXIT
