#!/bin/bash
# C10: a prose line that ends in CR CR LF loses both carriage returns (the known
# CRLF -> LF conversion accounts for one of them only), and that alone makes
# update rewrite a document whose tests all pass.
# exit 0 = property holds, 1 = violated
. "$(dirname "$0")/common.sh"
f="$WORK/cr.md"
printf '# T\n\nprose with cr\r\r\nmore\n\n```scrut\n$ echo hi\nhi\n```\n' > "$f"
"$SCRUT" update --replace -y "$f" >"$WORK/log" 2>&1
if grep -q $'^prose with cr\r' "$f"; then
  echo "carriage return in prose line kept (holds)"
  exit 0
fi
echo "VIOLATED - prose line outside scrut blocks changed (all tests pass):"
sed -n 3p "$f" | od -c | head -3
exit 1
