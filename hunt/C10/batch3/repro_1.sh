#!/bin/bash
# C10: update is not idempotent when a kept multiline expectation is followed
# by an unmatched expectation that update drops.
# exit 0 = property holds (second update changes nothing), 1 = violated
. "$(dirname "$0")/common.sh"
rc=0
variant() {
  name=$1; f="$WORK/$name.md"
  cat > "$f"
  "$SCRUT" update --replace -y "$f" >"$WORK/$name.log1" 2>&1
  cp "$f" "$f.u1"
  "$SCRUT" update --replace -y "$f" >"$WORK/$name.log2" 2>&1
  if cmp -s "$f.u1" "$f"; then
    echo "$name: second update changed nothing (holds)"
  else
    echo "$name: VIOLATED - second update with the same outputs changed the document:"
    diff "$f.u1" "$f"
    rc=1
  fi
}
variant optional_multiline <<'DOC'
# multiline, then unmatched, then glob

```scrut
$ printf '%s\n' b a c
[ab]+ (regex*)
x
* (glob)
```
DOC
variant nonoptional_multiline <<'DOC'
# glob+, then unmatched, then glob

```scrut
$ printf '%s\n' a1 a2 b
a* (glob+)
x
* (glob)
```
DOC
exit $rc
