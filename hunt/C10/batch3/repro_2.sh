#!/bin/bash
# C10: text in braces on the opening fence that is not exactly `{...}` at the end
# of the line is dropped by update, although the test passes.
# exit 0 = property holds, 1 = violated
. "$(dirname "$0")/common.sh"
rc=0
variant() {
  name=$1; fence=$2; keep=$3; f="$WORK/$name.md"
  printf '# T\n\n%s\n# comment\n$ echo hi\nhi\n```\n\nafter\n' "$fence" > "$f"
  "$SCRUT" update --replace -y "$f" >"$WORK/$name.log" 2>&1
  if sed -n 3p "$f" | grep -qF -- "$keep"; then
    echo "$name: fence line still carries '$keep' (holds): $(sed -n 3p "$f")"
  else
    echo "$name: VIOLATED - fence line '$fence' became '$(sed -n 3p "$f")' (test passes, nothing to update)"
    rc=1
  fi
}
variant trailing_text '```scrut {timeout: 3s} trailing' '{timeout: 3s}'
variant trailing_comment '```scrut {timeout: 3s} # why' '{timeout: 3s}'
variant unclosed_brace '```scrut {timeout: 3s' '{timeout: 3s'
exit $rc
