#!/bin/bash
# Variant of the KNOWN " (no-eol)" cause, new trigger: a fully PRINTABLE output
# line that starts with "$ " and ends in " (no-eol)" is written by create/update
# as an escaped expectation and read back without the suffix.
# exit 0 = property holds, 1 = violated
CO=${1:-/tmp/h_C11}
S=$CO/target/debug/scrut
[ -x "$S" ] || (cd "$CO" && cargo build --offline --bin scrut >/dev/null 2>&1)
d=$(mktemp -d); trap 'rm -rf "$d"' EXIT; cd "$d"
"$S" create -o t.md -- "printf '\$ foo (no-eol)\n'" >/dev/null 2>&1
cat t.md
if "$S" test t.md > out.txt 2>&1; then echo HOLDS; exit 0; fi
grep '|' out.txt; echo "VIOLATED: generated expectation does not match the line it was generated from"; exit 1
