#!/bin/bash
# C11 / error dump (Output::to_error_string -> OutputStream::to_output_string):
# an unterminated printable line that ends in " (escaped)" is written without
# the " (no-eol)" every other unterminated printable line gets, i.e. exactly as
# the terminated line. exit 0 = property holds, 1 = violated
CO=${1:-/tmp/h_C11}
S=$CO/target/debug/scrut
[ -x "$S" ] || (cd "$CO" && cargo build --offline --bin scrut >/dev/null 2>&1)
d=$(mktemp -d); trap 'rm -rf "$d"' EXIT; cd "$d"
dump() { printf '# T\n\n```scrut {timeout: 1s}\n$ printf '"'"'%s'"'"'; sleep 3\nx\n```\n' "$1" > t.md
  "$S" test -r pretty t.md 2>&1 | grep '^#> ' | sed 's/^#> //'; }
ref=$(dump 'foo')
un=$(dump 'foo (escaped)')
te=$(dump 'foo (escaped)\n')
echo "unterminated 'foo'            -> [$ref]"
echo "unterminated 'foo (escaped)'  -> [$un]"
echo "terminated   'foo (escaped)'  -> [$te]"
if [ "$un" = "$te" ]; then
  echo "VIOLATED: the unterminated and the terminated line are written as the same equal expectation (which only matches the terminated one)"; exit 1
fi
echo HOLDS; exit 0
