#!/bin/bash
# C11 / pretty renderer: printable line with trailing white space is written
# with substitute glyphs (U+23B5, U+21A6, U+2370): not printable ASCII in ascii
# mode, not the line, and the same text as for a different line.
# exit 0 = property holds, 1 = violated
CO=${1:-/tmp/h_C11}
S=$CO/target/debug/scrut
[ -x "$S" ] || (cd "$CO" && cargo build --offline --bin scrut >/dev/null 2>&1)
d=$(mktemp -d); trap 'rm -rf "$d"' EXIT; cd "$d"
bad=0
text_for() { # $1 = escaping mode, $2 = printf format of ONE output line
  printf '# T\n\n```scrut\n$ printf '"'"'%s'"'"'\nnope\n```\n' "$2" > t.md
  "$S" test -e "$1" -r pretty t.md 2>/dev/null | grep '| + ' | sed 's/^.*| + //'
}
a=$(text_for ascii 'trail \n')
echo "ascii mode, line 'trail ' written as: [$a]"
if printf '%s' "$a" | LC_ALL=C grep -q '[^ -~]'; then echo "VIOLATED: non printable-ASCII characters in ascii mode"; bad=1; fi
# read back
printf '# T\n\n```scrut\n$ printf '"'"'trail \\n'"'"'\n%s\n```\n' "$a" > r.md
if ! "$S" test r.md >/dev/null 2>&1; then echo "VIOLATED: written text read back does not match the line 'trail '"; bad=1; fi
u1=$(text_for unicode 'trail \n')
u2=$(text_for unicode 'trail\xe2\x8e\xb5\n')
u3=$(text_for unicode 'x\xc2\xa0\n')
u4=$(text_for unicode 'x\xe3\x80\x80\n')
echo "unicode mode: 'trail<SP>' -> [$u1]   'trail<U+23B5>' -> [$u2]"
echo "unicode mode: 'x<U+00A0>' -> [$u3]   'x<U+3000>' -> [$u4]"
[ "$u1" = "$u2" ] && { echo "VIOLATED: two lines with different content are written as the same text"; bad=1; }
[ "$u3" = "$u4" ] && { echo "VIOLATED: two lines with different content are written as the same text"; bad=1; }
[ $bad = 0 ] && echo HOLDS
exit $bad
