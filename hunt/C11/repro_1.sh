#!/bin/bash
# C11 / diff renderer: the text written for an unterminated printable output
# line is the bare line; read back as equal expectation it does not match it.
# exit 0 = property holds, 1 = violated
CO=${1:-/tmp/h_C11}
S=$CO/target/debug/scrut
[ -x "$S" ] || (cd "$CO" && cargo build --offline --bin scrut >/dev/null 2>&1)
d=$(mktemp -d); trap 'rm -rf "$d"' EXIT; cd "$d"
printf '# T\n\n```scrut\n$ printf '"'"'foo\\nlast'"'"'\nfoo\n```\n' > t.md
"$S" test -r diff t.md > t.diff 2>/dev/null
echo "--- diff renderer output:"; cat t.diff
# the text scrut wrote for the unexpected output line(s)
added=$(grep '^+' t.diff | grep -v '^+++' | sed 's/^+//')
echo "--- text written for the line: [$added]"
# read it back: put it where the diff says it belongs (after `foo`)
{ printf '# T\n\n```scrut\n$ printf '"'"'foo\\nlast'"'"'\nfoo\n'; printf '%s\n' "$added"; printf '```\n'; } > t2.md
if "$S" test t2.md >t2.out 2>&1; then
  echo "HOLDS: expectation read back matches the output line"; exit 0
else
  echo "VIOLATED: the written text, read back, does not match the line it was written for:"
  grep '|' t2.out
  exit 1
fi
