#!/bin/bash
# unset -f of a function inherited through the environment is not carried
. "$(dirname "$0")/repro_lib.sh"
c12_envfn() { echo from-env; }; export -f c12_envfn
cat > t.md <<'EOF_DOC'
# inherited function

```scrut
$ c12_envfn; unset -f c12_envfn
from-env
```

```scrut
$ declare -F c12_envfn || echo "c12_envfn gone"
c12_envfn gone
```
EOF_DOC
run_doc
