#!/bin/bash
# pushd -n with relative directories: stack entries are not carried as they were
. "$(dirname "$0")/repro_lib.sh"

cat > t.md <<'EOF_DOC'
# pushd -n

```scrut
$ mkdir -p a/b c; cd a; pushd -n b >/dev/null; pushd -n ../c >/dev/null; dirs -p | tail -n 2
../c
b
```

```scrut
$ dirs -p | tail -n 2
../c
b
```
EOF_DOC
run_doc
