#!/bin/bash
# set -E (errtrace) and set -T (functrace) are not carried
. "$(dirname "$0")/repro_lib.sh"

cat > t.md <<'EOF_DOC'
# errtrace functrace

```scrut
$ set -E; set -T; set -o | grep -E '^(errtrace|functrace)' | tr -s ' \t' ' '
errtrace on
functrace on
```

```scrut
$ set -o | grep -E '^(errtrace|functrace)' | tr -s ' \t' ' '
errtrace on
functrace on
```
EOF_DOC
run_doc
