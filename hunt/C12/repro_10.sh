#!/bin/bash
# function whose name declare -f cannot print re-parsably (a=b): the state file stops at a syntax error, all later state is lost
. "$(dirname "$0")/repro_lib.sh"

cat > t.md <<'EOF_DOC'
# function a=b

```scrut
$ function a=b { echo eq; }; AFTER=1; alias zz='echo zz'
```

```scrut
$ echo "AFTER=${AFTER-lost}"; alias | grep -c zz; declare -F | grep -c "a=b"; true
AFTER=1
1
1
```
EOF_DOC
run_doc
