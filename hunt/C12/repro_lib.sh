# shared by repro_<n>.sh: sets $SCRUT, creates a scratch dir, cleans up on exit
R="${1:-/tmp/h_C12}"
SCRUT="$R/target/debug/scrut"
if [ ! -x "$SCRUT" ]; then (cd "$R" && cargo build --offline --bin scrut >/dev/null 2>&1) || { echo "cannot build scrut" >&2; exit 99; }; fi
D=$(mktemp -d /tmp/c12repro.XXXXXX)
trap 'rm -rf "$D"' EXIT
cd "$D" || exit 99
# run_doc: runs `scrut test` on $D/t.md; exit status 0 = every test case saw what a
# single bash session would have shown (property holds), non-zero = violated
run_doc() { "$SCRUT" test --renderer diff t.md; }
