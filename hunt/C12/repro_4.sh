#!/bin/bash
# alias cd=pushd: restore code's cd is alias-expanded; stack grows and dirs are printed into the test output
. "$(dirname "$0")/repro_lib.sh"

cat > t.md <<'EOF_DOC'
# alias cd

```scrut
$ alias cd='pushd'
```

```scrut
$ dirs -p | wc -l
1
```

```scrut
$ dirs -p | wc -l
1
```
EOF_DOC
run_doc
