#!/bin/bash
# unset DIRSTACK: the working directory is not carried (PWD says sub, the process is elsewhere)
. "$(dirname "$0")/repro_lib.sh"

cat > t.md <<'EOF_DOC'
# unset DIRSTACK

```scrut
$ mkdir sub; cd sub; unset DIRSTACK; basename "$(/bin/pwd)"
sub
```

```scrut
$ basename "$(/bin/pwd)"; basename "$PWD"
sub
sub
```
EOF_DOC
run_doc
