#!/bin/bash
# export attribute removed from an inherited environment variable comes back
. "$(dirname "$0")/repro_lib.sh"
export C12_INHERITED=1
cat > t.md <<'EOF_DOC'
# unexport

```scrut
$ export -n C12_INHERITED; declare -p C12_INHERITED
declare -- C12_INHERITED="1"
```

```scrut
$ declare -p C12_INHERITED; bash -c 'echo "child sees: ${C12_INHERITED-nothing}"'
declare -- C12_INHERITED="1"
child sees: nothing
```

```scrut
$ unset C12_INHERITED
```

```scrut
$ C12_INHERITED=plain
```

```scrut
$ declare -p C12_INHERITED
declare -- C12_INHERITED="plain"
```
EOF_DOC
run_doc
