#!/bin/bash
# user function echo (logging wrapper): the state file gets corrupted lines; restore prints errors, extglob-dependent functions and OLDPWD handling break
. "$(dirname "$0")/repro_lib.sh"

cat > t.md <<'EOF_DOC'
# echo wrapper

```scrut
$ echo() { builtin echo "[log] $*"; }; X=carried
```

```scrut {output_stream: combined}
$ builtin echo "X=$X"
X=carried
```
EOF_DOC
run_doc
