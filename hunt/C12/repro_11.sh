#!/bin/bash
# set -r (restricted shell): the state cannot be written, everything of that test case is lost
. "$(dirname "$0")/repro_lib.sh"

cat > t.md <<'EOF_DOC'
# restricted

```scrut
$ X=before; set -r
```

```scrut
$ echo "X=$X"; case $- in *r*) echo restricted;; *) echo unrestricted;; esac
X=before
restricted
```
EOF_DOC
run_doc
