#!/bin/bash
# user function named like a command used by the persist code (grep): variables are lost
. "$(dirname "$0")/repro_lib.sh"

cat > t.md <<'EOF_DOC'
# mock

```scrut
$ grep() { echo mock-grep; }; X=carried
```

```scrut
$ echo "X=$X"
X=carried
```
EOF_DOC
run_doc
