#!/bin/bash
# variables on the exclusion list are never carried: TZ LANG LC_ALL COLUMNS CDPATH TMP GREP_OPTIONS, BASH_REMATCH, export of SHELLOPTS
. "$(dirname "$0")/repro_lib.sh"

cat > t.md <<'EOF_DOC'
# excluded names

```scrut
$ export TZ=Asia/Tokyo LANG=C.utf8 COLUMNS=120 CDPATH=/usr TMP=/x TEMP=/y GREP_OPTIONS=-i LANGUAGE=en; LC_ALL=C.utf8
```

```scrut
$ echo "$TZ $LANG $COLUMNS $CDPATH $TMP $TEMP $GREP_OPTIONS $LANGUAGE $LC_ALL"
Asia/Tokyo C.utf8 120 /usr /x /y -i en C.utf8
```

```scrut
$ [[ "hello world" =~ o\ (w.) ]]; echo "${BASH_REMATCH[1]}"
wo
```

```scrut
$ echo "rematch=${BASH_REMATCH[1]}"
rematch=wo
```

```scrut
$ set -o pipefail; export SHELLOPTS; bash -c 'set -o | grep -c "pipefail.*on"'
1
```

```scrut
$ bash -c 'set -o | grep -c "pipefail.*on"; true'
1
```
EOF_DOC
run_doc
