#!/bin/bash
# shopt -s nocasematch + export -n of a variable that has an exported twin differing only in case: the un-export is lost
# exits 0 if the property holds for this input, non-zero if it is violated
. "$(dirname "$0")/_lib.sh"
run_doc "${1:-/tmp/h_C12}" <<'DOC'
# t

```scrut
$ shopt -s nocasematch; export path=lower; export -n PATH; declare -p PATH | cut -c1-16
declare -- PATH=
```

```scrut
$ declare -p PATH | cut -c1-16
declare -- PATH=
```
DOC
