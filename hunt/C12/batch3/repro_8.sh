#!/bin/bash
# things a test case may change that make the state dump fail: ulimit -f, an exported value larger than the exec limit, EXECIGNORE covering grep/sed -- all shell state of the test case is lost
# exits 0 if the property holds for this input, non-zero if it is violated
. "$(dirname "$0")/_lib.sh"

run_doc "${1:-/tmp/h_C12}" <<'DOC'
# t

```scrut
$ keep=1; ulimit -f 1
```

```scrut
$ echo "[$keep]"
[1]
```

```scrut
$ small=2; export big=$(head -c 300000 /dev/zero | tr '\0' x); echo exported
exported
```

```scrut
$ echo "${#big} $small"; unset big
300000 2
```

```scrut
$ EXECIGNORE='*/grep:*/sed'; v=3; f() { echo F; }
```

```scrut
$ echo $v; f
3
F
```
DOC
