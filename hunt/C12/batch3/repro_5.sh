#!/bin/bash
# alias or function named 'export', alias named '[[', function named 'builtin': words of the runner script that are read after the state is loaded / used by the persist function
# exits 0 if the property holds for this input, non-zero if it is violated
. "$(dirname "$0")/_lib.sh"
run_doc "${1:-/tmp/h_C12}" <<'DOC'
# t

```scrut
$ alias export='echo EXPORTALIAS'
```

```scrut
$ echo hi; unalias export
hi
```

```scrut
$ export() { echo EXPORTFUNC; }
```

```scrut
$ echo hi; unset -f export
hi
```

```scrut
$ alias '[['='echo BRACKET'
```

```scrut
$ echo hi; unalias '[['
hi
```

```scrut
$ builtin() { echo FAKE; }; V=1
```

```scrut
$ echo "v=$V"
v=1
```
DOC
