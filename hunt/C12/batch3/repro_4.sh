#!/bin/bash
# attribute (-i/-u/-l/-c) given to a variable after it got its value: value is transformed on restore
# exits 0 if the property holds for this input, non-zero if it is violated
. "$(dirname "$0")/_lib.sh"
run_doc "${1:-/tmp/h_C12}" <<'DOC'
# t

```scrut
$ x=abc; declare -i x; y=Abc; declare -u y; z=Abc; declare -l z; declare -p x y z
declare -i x="abc"
declare -u y="Abc"
declare -l z="Abc"
```

```scrut
$ declare -p x y z
declare -i x="abc"
declare -u y="Abc"
declare -l z="Abc"
```
DOC
