#!/bin/bash
# enable -n printf / enable -n echo: the persist function uses the disabled builtins, working directory + directory stack / unset of inherited variables are lost
# exits 0 if the property holds for this input, non-zero if it is violated
. "$(dirname "$0")/_lib.sh"
run_doc "${1:-/tmp/h_C12}" <<'DOC'
# t

```scrut
$ enable -n printf; mkdir d; cd d; pushd /tmp >/dev/null
```

```scrut
$ dirs -l | sed "s#$OLDPWD#W/d#"
/tmp W/d
```

```scrut
$ enable printf; enable -n echo; unset HOME
```

```scrut
$ /bin/echo "${HOME-unset}"
unset
```
DOC
