#!/bin/bash
# function with a here-document line starting with 'declare -f' / multi-line alias with a line starting with 'set ': text is rewritten by the line-based sed in the state dump
# exits 0 if the property holds for this input, non-zero if it is violated
. "$(dirname "$0")/_lib.sh"
run_doc "${1:-/tmp/h_C12}" <<'DOC'
# t

```scrut
$ usage() { cat <<EOT
> declare -f NAME prints a function
> EOT
> }
```

```scrut
$ usage
declare -f NAME prints a function
```

```scrut
$ alias two=$'echo one\nset -- a b\necho "$@"'
```

```scrut
$ alias two
alias two='echo one
set -- a b
echo "$@"'
```
DOC
