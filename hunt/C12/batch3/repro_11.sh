#!/bin/bash
# an entry of the directory stack (not the current directory) that was removed meanwhile is dropped from the stack (related to the known removed-working-directory case)
# exits 0 if the property holds for this input, non-zero if it is violated
. "$(dirname "$0")/_lib.sh"

run_doc "${1:-/tmp/h_C12}" <<'DOC'
# t

```scrut
$ mkdir a b c; pushd a >/dev/null; pushd ../b >/dev/null; pushd ../c >/dev/null; rmdir ../b; echo ${#DIRSTACK[@]}
4
```

```scrut
$ echo ${#DIRSTACK[@]}; basename "${DIRSTACK[1]}"
4
b
```
DOC
