#!/bin/bash
# set -k (keyword) carried over: the 'export NAME=value' lines of the runner print the whole export list into the next test cases
# exits 0 if the property holds for this input, non-zero if it is violated
. "$(dirname "$0")/_lib.sh"
run_doc "${1:-/tmp/h_C12}" <<'DOC'
# t

```scrut
$ set -k
```

```scrut
$ echo hi
hi
```
DOC
