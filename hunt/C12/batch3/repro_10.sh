#!/bin/bash
# variables that bash maintains itself: $_, PIPESTATUS, SECONDS (elapsed time), RANDOM (sequence after seeding), BASH_COMPAT (spelling)
# exits 0 if the property holds for this input, non-zero if it is violated
. "$(dirname "$0")/_lib.sh"

run_doc "${1:-/tmp/h_C12}" <<'DOC'
# t

```scrut
$ false | true | ( exit 3 )
[3]
```

```scrut
$ echo "${PIPESTATUS[*]}"
1 0 3
```

```scrut
$ echo a b c
a b c
```

```scrut
$ echo "$_"
c
```

```scrut
$ SECONDS=0
```

```scrut
$ sleep 2
```

```scrut
$ echo $(( SECONDS >= 2 ))
1
```

```scrut
$ RANDOM=42
```

```scrut
$ echo $RANDOM
17772
```

```scrut
$ echo $RANDOM $RANDOM
26794 1435
```

```scrut
$ BASH_COMPAT=4.2
```

```scrut
$ echo $BASH_COMPAT
4.2
```
DOC
