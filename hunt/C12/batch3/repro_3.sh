#!/bin/bash
# function whose name is not an identifier + set -o posix: POSIXLY_CORRECT is restored before the functions, the next test case does not run at all
# exits 0 if the property holds for this input, non-zero if it is violated
. "$(dirname "$0")/_lib.sh"
run_doc "${1:-/tmp/h_C12}" <<'DOC'
# t

```scrut
$ my-func() { echo dash; }; set -o posix
```

```scrut
$ my-func; echo still here
dash
still here
```
DOC
