#!/bin/bash
# umask without owner read/write bits (non-root user): the state file is created unreadable, all state is lost from then on
# exits 0 if the property holds for this input, non-zero if it is violated
. "$(dirname "$0")/_lib.sh"
# (as root the file mode does not matter: run scrut as "nobody" then)
if [ "$(id -u)" = 0 ]; then command -v setpriv >/dev/null || { echo "need a non-root user" >&2; exit 98; }; RUN_AS="setpriv --reuid=65534 --regid=65534 --clear-groups env HOME=/tmp TMPDIR=/tmp"; fi
run_doc "${1:-/tmp/h_C12}" <<'DOC'
# t

```scrut
$ X=1; umask 0777
```

```scrut
$ echo "[$X]"; Y=2
[1]
```

```scrut
$ echo "[$X][$Y]"
[1][2]
```
DOC
