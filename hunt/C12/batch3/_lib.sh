# shared helper for the repro_<n>.sh scripts (sourced by them)
# usage: run_doc <checkout> <<'DOC' ... DOC   -> exit status of `scrut test`
run_doc() {
    local checkout=${1:-/tmp/h_C12}
    local scrut=$checkout/target/debug/scrut
    if [ ! -x "$scrut" ]; then
        ( cd "$checkout" && cargo build --offline --bin scrut >/dev/null 2>&1 ) || { echo "cannot build scrut in $checkout" >&2; return 99; }
    fi
    local dir
    dir=$(mktemp -d /tmp/c12repro.XXXXXX) || return 99
    chmod 755 "$dir"
    cat > "$dir/t.md"
    local rc
    ( cd "$dir" && ${RUN_AS:-} "$scrut" test --combine-output t.md ) ; rc=$?
    rm -rf "$dir"
    return $rc
}
