#!/bin/bash
# temporary directory whose path contains a double quote: the generated script is syntactically broken, no test case runs
. "$(dirname "$0")/repro_lib.sh"
mkdir -p "$D/q\"uote"
cat > t.md <<'EOF_DOC'
# tmpdir

```scrut
$ X=1
```

```scrut
$ echo "X=$X"
X=1
```
EOF_DOC
TMPDIR="$D/q\"uote" run_doc
