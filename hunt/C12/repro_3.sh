#!/bin/bash
# user function cd that uses pushd (auto-pushd idiom): the directory stack grows with every test case
. "$(dirname "$0")/repro_lib.sh"

cat > t.md <<'EOF_DOC'
# cd wrapper

```scrut
$ mkdir -p a; cd() { builtin pushd "$@" >/dev/null; }; cd a; dirs -p | wc -l
2
```

```scrut
$ dirs -p | wc -l
2
```

```scrut
$ dirs -p | wc -l
2
```
EOF_DOC
run_doc
