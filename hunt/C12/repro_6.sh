#!/bin/bash
# unset of variables that bash sets by itself at startup (IFS, OSTYPE, HOSTNAME, PS4, OPTIND, RANDOM) is not carried
. "$(dirname "$0")/repro_lib.sh"

cat > t.md <<'EOF_DOC'
# unset defaults

```scrut
$ unset IFS OSTYPE HOSTNAME PS4 OPTIND RANDOM
```

```scrut
$ echo "IFS:${IFS+set} OSTYPE:${OSTYPE-unset} HOSTNAME:${HOSTNAME-unset} PS4:${PS4-unset} OPTIND:${OPTIND-unset} RANDOM:${RANDOM-unset}"
IFS: OSTYPE:unset HOSTNAME:unset PS4:unset OPTIND:unset RANDOM:unset
```
EOF_DOC
run_doc
