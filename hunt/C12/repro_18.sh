#!/bin/bash
# working directory deleted while being in it: next test case is silently somewhere else
. "$(dirname "$0")/repro_lib.sh"

cat > t.md <<'EOF_DOC'
# deleted cwd

```scrut
$ mkdir gone; cd gone; rmdir ../gone; basename "$PWD"
gone
```

```scrut
$ basename "$PWD"; stat -c %h . 
gone
0
```
EOF_DOC
run_doc
