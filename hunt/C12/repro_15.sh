#!/bin/bash
# scrut's own function / variables / trap are visible to probes of the state
. "$(dirname "$0")/repro_lib.sh"

cat > t.md <<'EOF_DOC'
# internals

```scrut
$ f() { :; }; V=1
```

```scrut
$ declare -F; compgen -v | grep -c __SCRUT; trap -p
declare -f f
0
```
EOF_DOC
run_doc
