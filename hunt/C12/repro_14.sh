#!/bin/bash
# BASH_COMPAT=4.3 comes back as 43
. "$(dirname "$0")/repro_lib.sh"

cat > t.md <<'EOF_DOC'
# BASH_COMPAT

```scrut
$ BASH_COMPAT=4.3; echo $BASH_COMPAT
4.3
```

```scrut
$ echo $BASH_COMPAT
4.3
```
EOF_DOC
run_doc
