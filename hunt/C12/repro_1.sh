#!/bin/bash
# PATH made unusable in one test case: the state of that test case is not persisted
. "$(dirname "$0")/repro_lib.sh"

cat > t.md <<'EOF_DOC'
# PATH

```scrut
$ PATH=/nonexistent; X=carried
```

```scrut
$ echo "PATH=$PATH X=$X"
PATH=/nonexistent X=carried
```
EOF_DOC
run_doc
