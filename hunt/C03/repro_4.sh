#!/bin/bash
# C03 / word boundary assertions \b{start} \b{end} \b{start-half} \b{end-half} of the regex crate get their braces escaped
. "$(dirname "$0")/repro_common.sh"
expect_pass "echo foo" '\b{start}foo\b{end} (regex)'
exit $VIOLATED
