#!/bin/bash
# C03 / open-ended repetition {n,} in a regex expectation is turned into literal text
. "$(dirname "$0")/repro_common.sh"
expect_pass "echo aaa" 'a{2,} (regex)'
expect_pass "echo 123" '\d{2,} (regex)'
expect_pass "echo abab" '(a|b){2,} (regex)'
expect_fail "echo 'a{2,}'" 'a{2,} (regex)'
exit $VIOLATED
