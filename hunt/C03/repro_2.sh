#!/bin/bash
# C03 / nested bracket classes ([[:alpha:]], [a-z&&[^aeiou]], [[a-c][x-z]]) in a regex expectation are broken by escaping the inner '['
. "$(dirname "$0")/repro_common.sh"
expect_pass "echo abc" '[[:alpha:]]+ (regex)'
expect_pass "echo abc" '[^[:space:]]+ (regex)'
expect_pass "echo bcd" '[a-z&&[^aeiou]]+ (regex)'
expect_pass "echo axb" '[[a-c][x-z]]+ (regex)'
exit $VIOLATED
