#!/bin/bash
# C03 / the internal placeholder <<<<n>>>> used while rewriting a regex collides with the same text in the expression
. "$(dirname "$0")/repro_common.sh"
expect_pass "echo 'a<<<<3>>>>'" 'a<<<<3>>>> (regex)'
expect_fail "echo aaa" 'a<<<<3>>>> (regex)'
exit $VIOLATED
