# sourced by repro_<n>.sh ; provides: SCRUT, expect_pass <cmd> <expectation>, expect_fail <cmd> <expectation>
CHECKOUT="${1:-/tmp/h_C03}"
SCRUT="$CHECKOUT/target/debug/scrut"
if [ ! -x "$SCRUT" ]; then
    (cd "$CHECKOUT" && cargo build --offline --bin scrut >/dev/null 2>&1) || { echo "build failed"; exit 2; }
fi
WORK="$(mktemp -d)"
trap 'rm -rf "$WORK"' EXIT
VIOLATED=0
mkdoc() { # cmd expectation
    printf '# t\n\n```scrut\n$ %s\n%s\n```\n' "$1" "$2" > "$WORK/doc.md"
}
expect_pass() {
    mkdoc "$1" "$2"
    if "$SCRUT" test "$WORK/doc.md" > "$WORK/out.txt" 2>&1; then
        echo "holds:    [$1] described by [$2] -> scrut passes"
    else
        echo "VIOLATED: [$1] is described by [$2] but scrut reports a failure:"; sed 's/^/    /' "$WORK/out.txt"
        VIOLATED=1
    fi
}
expect_fail() {
    mkdoc "$1" "$2"
    if "$SCRUT" test "$WORK/doc.md" > "$WORK/out.txt" 2>&1; then
        echo "VIOLATED: [$1] is NOT described by [$2] but scrut reports a match"
        VIOLATED=1
    else
        echo "holds:    [$1] not described by [$2] -> scrut fails"
    fi
}
