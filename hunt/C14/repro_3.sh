#!/bin/bash
# C14 repro 3: a command that finishes immediately is reported as timed out
# (default limits: 900s document, no per-test timeout) if the shell exits while
# scrut still has more than a pipe buffer (64 KiB) of script to write to its STDIN.
# exit 0 = property holds, non-zero = violated
CHECKOUT=${1:-/tmp/h_C14}
SCRUT=$CHECKOUT/target/debug/scrut
[ -x "$SCRUT" ] || (cd "$CHECKOUT" && cargo build --offline --bin scrut >/dev/null 2>&1)
[ -x "$SCRUT" ] || { echo "no scrut binary"; exit 2; }
W=$(mktemp -d); trap 'rm -rf "$W"' EXIT
cd "$W"
rc=0

# (a) Cram document: first test asks to skip the document (exit 80), 300 trivial tests follow
{ echo "skip"; echo '  $ exit 80'; echo
  for i in $(seq 1 300); do echo "test $i"; echo "  \$ echo a$i"; echo "  a$i"; echo; done; } > a.t
s=$(date +%s%N)
out=$(timeout -s KILL 60 "$SCRUT" test -r json a.t 2>/dev/null); code=$?
ms=$(( ($(date +%s%N) - s) / 1000000 ))
n=$(echo "$out" | grep -o '"kind":"timeout"' | wc -l)
echo "(a) exit=$code elapsed=${ms}ms timeouts_reported=$n"
if [ "$n" -gt 0 ]; then echo "(a) VIOLATED: 'exit 80' finished after ${ms}ms (limit 900s) but is reported as timed out"; rc=1; fi

# (b) Markdown document: one test whose expression is longer than 64 KiB and that exits early
{ echo "# big"; echo; echo '```scrut'; echo '$ echo hi; exit 0'
  for i in $(seq 1 3000); do echo "> : aaaaaaaaaaaaaaaaaaaaaaaaaaaaaaaaaaaaaaaaaaaaaaaaaaaaaaa $i"; done
  echo hi; echo '```'; } > b.md
s=$(date +%s%N)
out=$(timeout -s KILL 60 "$SCRUT" test -r json b.md 2>/dev/null); code=$?
ms=$(( ($(date +%s%N) - s) / 1000000 ))
n=$(echo "$out" | grep -o '"kind":"timeout"' | wc -l)
echo "(b) exit=$code elapsed=${ms}ms timeouts_reported=$n"
if [ "$n" -gt 0 ]; then echo "(b) VIOLATED: 'echo hi; exit 0' finished after ${ms}ms (limit 900s) but is reported as timed out"; rc=1; fi
exit $rc
