#!/bin/bash
# C14 repro 2: a command that writes output faster than scrut reads it is never
# timed out (neither per-test `timeout` nor document limit); scrut buffers the
# output without bound. A hard outer limit of 5s (5x the timeout) ends the run.
# exit 0 = property holds, non-zero = violated
CHECKOUT=${1:-/tmp/h_C14}
SCRUT=$CHECKOUT/target/debug/scrut
[ -x "$SCRUT" ] || (cd "$CHECKOUT" && cargo build --offline --bin scrut >/dev/null 2>&1)
[ -x "$SCRUT" ] || { echo "no scrut binary"; exit 2; }
W=$(mktemp -d); trap 'rm -rf "$W"' EXIT
cd "$W"
rc=0
cat > a.md <<'DOC'
# endless output

```scrut {timeout: 1s}
$ yes
```

```scrut
$ echo c
c
```
DOC
cat > b.md <<'DOC'
# endless output on stderr, document limit

```scrut
$ yes >&2
```
DOC
run() { # label, args...
  local label=$1; shift
  local s=$(date +%s%N)
  local out; out=$( (ulimit -v 6000000; exec timeout -s KILL 5 "$SCRUT" test "$@") 2>&1 ); local code=$?
  local ms=$(( ($(date +%s%N) - s) / 1000000 ))
  echo "($label) exit=$code elapsed=${ms}ms: $(echo "$out" | grep '^Result')"
  if [ $code -ne 50 ] || [ $ms -gt 3000 ] || ! echo "$out" | grep -q "timeout in execution"; then
    echo "($label) VIOLATED: limit of 1s did not abort the test (still running after ${ms}ms / not reported as timed out)"; rc=1
  fi
}
run a a.md
run b --timeout-seconds 1 b.md
exit $rc
