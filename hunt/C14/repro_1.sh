#!/bin/bash
# C14 repro 1: a shell that closes its stdout/stderr escapes the timeout
# (per-test `timeout` and document limit): scrut blocks in an unbounded wait().
# exit 0 = property holds, non-zero = violated
CHECKOUT=${1:-/tmp/h_C14}
SCRUT=$CHECKOUT/target/debug/scrut
[ -x "$SCRUT" ] || (cd "$CHECKOUT" && cargo build --offline --bin scrut >/dev/null 2>&1)
[ -x "$SCRUT" ] || { echo "no scrut binary"; exit 2; }
W=$(mktemp -d); trap 'rm -rf "$W"' EXIT
cd "$W"
rc=0

# (a) per-test timeout 1s, command runs 4s
cat > a.md <<'DOC'
# closes its output streams, then hangs

```scrut {timeout: 1s}
$ exec >&- 2>&-; sleep 4
```

```scrut
$ echo c
c
```
DOC
s=$(date +%s%N)
out=$(timeout -s KILL 30 "$SCRUT" test a.md 2>&1); code=$?
ms=$(( ($(date +%s%N) - s) / 1000000 ))
echo "(a) exit=$code elapsed=${ms}ms: $(echo "$out" | grep '^Result')"
if [ $code -eq 0 ] || [ $ms -gt 2500 ] || ! echo "$out" | grep -q "1 failed and 1 skipped"; then
  echo "(a) VIOLATED: test with timeout 1s ran ${ms}ms and was not reported as timed out"; rc=1
fi

# (b) document limit 1s (--timeout-seconds 1), slow test is the last one
cat > b.md <<'DOC'
# document limit

```scrut
$ echo a
a
```

```scrut
$ exec >/dev/null 2>&1; sleep 4
```
DOC
s=$(date +%s%N)
out=$(timeout -s KILL 30 "$SCRUT" test --timeout-seconds 1 b.md 2>&1); code=$?
ms=$(( ($(date +%s%N) - s) / 1000000 ))
echo "(b) exit=$code elapsed=${ms}ms: $(echo "$out" | grep '^Result')"
if [ $code -eq 0 ] || [ $ms -gt 2500 ]; then
  echo "(b) VIOLATED: document with limit 1s ran ${ms}ms and was not reported as failed"; rc=1
fi
exit $rc
