#!/bin/bash
# C14 repro 3: scrut runs as an unprivileged user, the test case `exec`s a program
# that raises its privileges (like `sudo`): scrut's SIGKILL fails with EPERM and
# scrut then waits for the process without any bound.
# Property: a test case with a `timeout` is aborted once it has run that long.
# Needs: root (to install a setuid helper and to drop privileges with setpriv), rustc.
# exit 0 = property holds, 1 = violated, 99 = cannot set up
CO=${1:-/tmp/h_C14}
SCRUT=$CO/target/debug/scrut
[ -x "$SCRUT" ] || { echo "build scrut first"; exit 99; }
[ "$(id -u)" = 0 ] || { echo "needs root for the setup"; exit 99; }
command -v setpriv >/dev/null && command -v rustc >/dev/null || { echo "needs setpriv and rustc"; exit 99; }
D=$(mktemp -d /tmp/c14r3.XXXXXX); trap 'rm -rf "$D"' EXIT
chmod 755 "$D"
cat > "$D/raise.rs" <<'RS'
extern "C" { fn setuid(uid: u32) -> i32; }
fn main() {
    let secs: u64 = std::env::args().nth(1).and_then(|s| s.parse().ok()).unwrap_or(5);
    unsafe { setuid(0) }; // real, effective and saved uid become 0 (what sudo does)
    std::thread::sleep(std::time::Duration::from_secs(secs));
}
RS
rustc -O "$D/raise.rs" -o "$D/raise" 2>/dev/null || { echo "rustc failed"; exit 99; }
chown root:root "$D/raise"; chmod 4755 "$D/raise"
cat > "$D/doc.md" <<DOC
---
total_timeout: 0s
---
# T

\`\`\`scrut {timeout: 1s}
\$ exec $D/raise 8
\`\`\`

\`\`\`scrut
\$ echo b
b
\`\`\`
DOC
chmod 644 "$D/doc.md"
cd "$D"
start=$(date +%s.%N)
HOME=$D TMPDIR=/tmp setpriv --reuid=65534 --regid=65534 --clear-groups "$SCRUT" test --no-color "$D/doc.md" 2>&1 | tail -4
end=$(date +%s.%N)
el=$(echo "$end - $start" | bc)
echo "scrut returned after $el s (per-test timeout: 1s, program runs 8s)"
if [ "$(echo "$el > 4" | bc)" = 1 ]; then
  echo "VIOLATED: the test case was not aborted at its timeout, scrut waited until the program ended by itself"
  exit 1
fi
echo "holds"
exit 0
