#!/bin/bash
# C14 repro 5: an earlier test case leaves a big shell variable behind; restoring and
# persisting the shell state (scrut's own wrapper around every command) then takes
# longer than the timeout of a later test case whose command is instantaneous.
# Property: a command that finishes inside all applicable limits is never reported as timed out.
# exit 0 = property holds, 1 = violated
CO=${1:-/tmp/h_C14}
SCRUT=$CO/target/debug/scrut
[ -x "$SCRUT" ] || { echo "build scrut first"; exit 99; }
D=$(mktemp -d); trap 'rm -rf "$D"' EXIT
cat > "$D/doc.md" <<'DOC'
---
total_timeout: 0s
---
# T

```scrut
$ BIG=$(head -c 40000000 /dev/zero | tr '\0' x); echo done
done
```

```scrut {timeout: 1s}
$ echo hi
hi
```

```scrut
$ echo c
c
```
DOC
cd "$D"
out=$("$SCRUT" test --no-color doc.md 2>&1); rc=$?
echo "$out" | tail -12
echo "scrut exit code: $rc"
if echo "$out" | grep -A4 '^// \$ echo hi$' | grep -q 'timeout in execution'; then
  echo "VIOLATED: 'echo hi' (finishes in well under 1s) is reported as timed out after 1s"
  exit 1
fi
echo "holds"
exit 0
