#!/bin/bash
# C14 repro 4: document has total_timeout: 1s, command line has a longer (or unlimited) --timeout-seconds.
# Property (as read here): the document stops and fails once its total_timeout has elapsed,
# whichever limit is reached first and whatever other limits are configured.
# exit 0 = property holds, 1 = violated
CO=${1:-/tmp/h_C14}
SCRUT=$CO/target/debug/scrut
[ -x "$SCRUT" ] || { echo "build scrut first"; exit 99; }
D=$(mktemp -d); trap 'rm -rf "$D"' EXIT
cat > "$D/doc.md" <<'DOC'
---
total_timeout: 1s
---
# T

```scrut
$ sleep 3; echo a
a
```

```scrut
$ echo b
b
```
DOC
cd "$D"
bad=0
for cli in 100 0; do
  start=$(date +%s.%N)
  "$SCRUT" test --no-color --timeout-seconds $cli doc.md 2>&1 | tail -2; rc=${PIPESTATUS[0]}
  el=$(echo "$(date +%s.%N) - $start" | bc)
  echo "--timeout-seconds $cli: exit $rc after $el s"
  if [ $rc -eq 0 ]; then bad=1; fi
done
if [ $bad = 1 ]; then
  echo "VIOLATED: the document's own total_timeout (1s) had elapsed, the document ran on for 3s and is reported as passed"
  exit 1
fi
echo "holds"
exit 0
