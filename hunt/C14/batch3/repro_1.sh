#!/bin/bash
# C14 repro 1: Cram document, slow test case is NOT the first one.
# Property: a command that finishes inside all limits is never reported as timed out
# (and the aborted test case is the one reported as failed).
# exit 0 = property holds, 1 = violated
CO=${1:-/tmp/h_C14}
SCRUT=$CO/target/debug/scrut
[ -x "$SCRUT" ] || { echo "build scrut first: (cd $CO && cargo build --offline --bin scrut)"; exit 99; }
D=$(mktemp -d); trap 'rm -rf "$D"' EXIT
cat > "$D/doc.t" <<'DOC'
  $ echo fast1
  fast1
  $ echo fast2
  fast2
  $ sleep 5; echo slow
  slow
  $ echo after
  after
DOC
cd "$D"
out=$("$SCRUT" test --timeout-seconds 1 --no-color doc.t 2>&1); rc=$?
echo "$out"
echo "scrut exit code: $rc"
# the block that reports the timeout names the location of the test case
if echo "$out" | grep -A6 '^// @ doc.t:1$' | grep -q 'timeout in execution'; then
  echo "VIOLATED: 'echo fast1' (line 1, finished immediately) is reported as timed out; the slow test case (line 5) is reported as skipped"
  exit 1
fi
echo "holds"
exit 0
