#!/bin/bash
# C14 repro 2: the document limit elapses during a `wait`; only detached test cases follow.
# Property: a document stops executing and is reported as failed once its total_timeout has elapsed.
# exit 0 = property holds, 1 = violated
CO=${1:-/tmp/h_C14}
SCRUT=$CO/target/debug/scrut
[ -x "$SCRUT" ] || { echo "build scrut first"; exit 99; }
D=$(mktemp -d); trap 'rm -rf "$D"' EXIT
cat > "$D/doc.md" <<DOC
---
total_timeout: 1s
---
# T

\`\`\`scrut
\$ echo a
a
\`\`\`

\`\`\`scrut {wait: 3s, detached: true}
\$ date +%s.%N > $D/mark_1
\`\`\`

\`\`\`scrut {detached: true}
\$ date +%s.%N > $D/mark_2
\`\`\`

\`\`\`scrut {wait: 2s, detached: true}
\$ date +%s.%N > $D/mark_3
\`\`\`
DOC
cd "$D"
start=$(date +%s.%N)
out=$("$SCRUT" test --no-color doc.md 2>&1); rc=$?
end=$(date +%s.%N)
sleep 0.5
echo "$out" | tail -3
echo "scrut exit code: $rc; started $start, returned $end"
for m in 1 2 3; do [ -f mark_$m ] && echo "test case $((m+1)) ran at $(cat mark_$m) (limit elapsed at $(echo "$start + 1" | bc))"; done
# the 3s wait was cut off by the 1s document limit, i.e. the limit has elapsed:
# the document must be reported as failed and nothing may be started after that
if [ $rc -eq 0 ] || [ -f mark_2 ] || [ -f mark_3 ]; then
  echo "VIOLATED: total_timeout (1s) elapsed during the wait, but the following test cases were still started and the document is reported as passed (exit $rc)"
  exit 1
fi
echo "holds"
exit 0
