#!/bin/bash
# C09 violation (minor, title input): `scrut create --title` with a title of more than
# one line whose second line is a fence writes a Markdown document that does not parse
# back (or, with a complete block in the title, parses back to two test cases).
# exit 0 = holds, 1 = violated
ROOT=${1:-/tmp/h_C09}
S=$ROOT/target/debug/scrut
[ -x "$S" ] || (cd "$ROOT" && cargo build --offline --bin scrut >/dev/null 2>&1)
W=$(mktemp -d); cd "$W" || exit 2
"$S" create -t $'See\n```' -o c.md 'echo out' >/dev/null 2>&1
echo "--- generated c.md"; cat c.md
out=$("$S" test c.md 2>&1); rc=$?
echo "$out" | grep -v '^ ' | head -n 3
if [ $rc -eq 0 ]; then echo "HOLDS"; exit 0; fi
echo "VIOLATED: generated document does not parse back / pass (exit=$rc)"; exit 1
