#!/bin/bash
# C09 borderline: a test whose shell is killed by a signal has no exit code; scrut
# stores -255 for it and `scrut update` writes `[-255]`, which is not read back as an
# exit code but as an output expectation (same for any negative code through the API).
# exit 0 = holds, 1 = violated
ROOT=${1:-/tmp/h_C09}
S=$ROOT/target/debug/scrut
[ -x "$S" ] || (cd "$ROOT" && cargo build --offline --bin scrut >/dev/null 2>&1)
W=$(mktemp -d); cd "$W" || exit 2
printf '# t\n\n```scrut\n$ echo hi; kill -9 $BASHPID\nwrong\n```\n' > k.md
"$S" update --replace -y k.md >/dev/null 2>&1
echo "--- updated k.md"; cat k.md
if grep -q '^\[-' k.md; then echo "VIOLATED: negative exit code line written, it is read back as an output expectation"; exit 1; fi
echo "HOLDS"; exit 0
