#!/bin/bash
# C09 violation: `scrut update --convert cram` of a failing Markdown test keeps a
# matched `(glob)` expectation verbatim whose wildcard covers bytes that are not
# valid UTF-8; the Cram glob rule does not match them. exit 0 = holds, 1 = violated
ROOT=${1:-/tmp/h_C09}
S=$ROOT/target/debug/scrut
[ -x "$S" ] || (cd "$ROOT" && cargo build --offline --bin scrut >/dev/null 2>&1)
W=$(mktemp -d); cd "$W" || exit 2
cat > a.md <<'DOC'
# title

```scrut
$ printf 'bin \377 data\nnew\n'
bin * (glob)
old
```
DOC
"$S" update --convert cram -y a.md >/dev/null 2>&1
echo "--- generated a.t"; cat a.t
out=$("$S" test a.t 2>&1); rc=$?
echo "$out" | tail -n 12
if [ $rc -eq 0 ]; then echo "HOLDS"; exit 0; fi
echo "VIOLATED: converted test fails against the output it was generated from"; exit 1
