#!/bin/bash
# C09 violation: `scrut update --convert cram` of a failing Markdown test keeps a
# matched expectation that reads `$ foo` verbatim; in Cram that line starts a new
# shell expression. exit 0 = property holds, 1 = violated
ROOT=${1:-/tmp/h_C09}
S=$ROOT/target/debug/scrut
[ -x "$S" ] || (cd "$ROOT" && cargo build --offline --bin scrut >/dev/null 2>&1)
W=$(mktemp -d); cd "$W" || exit 2
cat > a.md <<'DOC'
# title

```scrut
$ printf 'head\n$ foo\nnew\n'
head
$ foo
old
```
DOC
"$S" update --convert cram -y a.md >/dev/null 2>&1
echo "--- generated a.t"; cat a.t
out=$("$S" test a.t 2>&1); rc=$?
echo "$out" | tail -n 1
n=$(grep -c '^  \$ ' a.t)
if [ $rc -eq 0 ] && [ "$n" = 1 ]; then echo "HOLDS"; exit 0; fi
echo "VIOLATED: converted document has $n shell expressions, scrut test exit=$rc"; exit 1
