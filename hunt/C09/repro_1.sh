#!/bin/bash
# C09 / finding 1: last output line `$` (Cram) or only output line `>` (both
# formats) without final newline is written as `$ (no-eol)` / `> (no-eol)`,
# which is read back as shell expression
. "$(dirname "$0")/lib.sh"
"$SCRUT" create --format cram -o dollar.t -- "printf 'a\n\$'" >/dev/null 2>&1
expect_pass dollar.t 1
"$SCRUT" create --format cram -o gt.t -- "printf '>'" >/dev/null 2>&1
expect_pass gt.t 1
"$SCRUT" create --format markdown -o gt.md -- "printf '>'" >/dev/null 2>&1
expect_pass gt.md 1
"$SCRUT" create --format markdown -e ascii -o gt_ascii.md -- "printf '>'" >/dev/null 2>&1
expect_pass gt_ascii.md 1
exit $VIOLATED
