#!/bin/bash
# C09 / finding 4: `scrut update --convert cram` of a failing Markdown test
# with `output_stream: stderr` writes the STDERR lines as expectations of a
# Cram test, which has no per-test config and validates STDOUT
. "$(dirname "$0")/lib.sh"
cat > a.md <<'DOC'
# stderr test

```scrut {output_stream: stderr}
$ echo out; echo err >&2
old
```
DOC
"$SCRUT" update --convert cram -y a.md >/dev/null 2>&1
expect_pass a.t 1
exit $VIOLATED
