#!/bin/bash
# C09 / finding 2: `scrut update` keeps a matched expectation `> second`
# verbatim; once the line before it is gone it directly follows the command
# and is read back as continuation of the shell expression
. "$(dirname "$0")/lib.sh"
cat > f2.md <<'DOC'
# prompt lines

```scrut
$ printf '> second\n'
first
> second
```
DOC
printf 'prompt lines\n  $ printf "> second\\n"\n  first\n  > second\n' > f2.t
"$SCRUT" update -y --replace f2.md >/dev/null 2>&1
expect_pass f2.md 1
"$SCRUT" update -y --replace f2.t >/dev/null 2>&1
expect_pass f2.t 1
exit $VIOLATED
