#!/bin/bash
# C09 / finding 8 (minor): `scrut create --format cram --title '  x'` writes
# the title unguarded; an indented title is read back as expectation
. "$(dirname "$0")/lib.sh"
"$SCRUT" create --format cram --title '  indented title' -o t.t -- 'echo x' >/dev/null 2>&1
expect_pass t.t 1
exit $VIOLATED
