#!/bin/bash
# C09 / finding 5: `scrut update --convert markdown` of a failing Cram test
# keeps the matched expectation `foo\*bar (glob)` verbatim; the Cram glob
# (escaped wildcard = literal `*`) is not the Markdown glob
. "$(dirname "$0")/lib.sh"
printf 'glob escape\n  $ printf "foo*bar\\nnew\\n"\n  foo\\*bar (glob)\n  old\n' > g.t
"$SCRUT" update --convert markdown -y g.t >/dev/null 2>&1
expect_pass g.md 1
exit $VIOLATED
