#!/bin/bash
# C09 / finding 3: `scrut update` drops the unmatched expectation `gone`; that
# makes `* (glob)` the successor of the multiline `a* (glob+)`, which then ends
# one line earlier when the updated test is validated: the updated test fails
# against the very output it was updated from
. "$(dirname "$0")/lib.sh"
cat > f3.md <<'DOC'
# handoff

```scrut
$ printf 'a1\na2\nb\nc\n'
a* (glob+)
gone
* (glob)
```
DOC
printf 'handoff\n  $ printf "a1\\na2\\nb\\nc\\n"\n  a* (glob+)\n  gone\n  * (glob)\n' > f3.t
"$SCRUT" update -y --replace f3.md >/dev/null 2>&1
expect_pass f3.md 1
"$SCRUT" update -y --replace f3.t >/dev/null 2>&1
expect_pass f3.t 1
exit $VIOLATED
