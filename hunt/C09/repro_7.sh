#!/bin/bash
# C09 / finding 7: a shell expression with CRLF line ending (or ending in CR)
# is written as it is, and read back without the CR: not the same expression,
# and (Cram keeps CRLF of the output) not the same output
. "$(dirname "$0")/lib.sh"
"$SCRUT" create --format cram -o cr.t -- $'echo a\r\necho b' >/dev/null 2>&1
expect_pass cr.t 1
exit $VIOLATED
