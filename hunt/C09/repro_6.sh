#!/bin/bash
# C09 / finding 6: `scrut update --convert cram` of a failing Markdown test
# keeps the matched expectation `$ foo` verbatim, which is a new shell
# expression in a Cram document
. "$(dirname "$0")/lib.sh"
cat > d.md <<'DOC'
# dollar

```scrut
$ printf '$ foo\nbar\n'
$ foo
baz
```
DOC
"$SCRUT" update --convert cram -y d.md >/dev/null 2>&1
expect_pass d.t 1
exit $VIOLATED
