# shared helpers for the repro scripts; source with CHECKOUT set
CHECKOUT=${1:-/tmp/h_C09}
SCRUT=$CHECKOUT/target/debug/scrut
if [ ! -x "$SCRUT" ]; then
  (cd "$CHECKOUT" && cargo build --offline --bin scrut >/dev/null 2>&1) || { echo "cannot build scrut" >&2; exit 99; }
fi
WORK=$(mktemp -d /tmp/c09_repro.XXXXXX)
cd "$WORK" || exit 99
VIOLATED=0
# expect_pass <file> <number of testcases>: the document must parse into that
# many testcases and all of them must pass
expect_pass() {
  local out
  out=$("$SCRUT" test --no-color "$1" 2>&1)
  if echo "$out" | grep -q "with $2 testcase(s): $2 succeeded, 0 failed and 0 skipped"; then
    echo "HOLDS: $1"
  else
    echo "VIOLATED: $1"
    echo "--- generated document:"; cat "$1"
    echo "--- scrut test:"; echo "$out" | grep -v '^ *[0-9]*: \|^ *at ' | tail -25
    VIOLATED=1
  fi
}
