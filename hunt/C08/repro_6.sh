#!/bin/bash
# runs repro_6.rs (next to this script) as an integration test of the checkout
# exits 0 if the property holds, non-zero if violated
CHECKOUT="${1:-/tmp/h_C08}"
HERE="$(cd "$(dirname "$0")" && pwd)"
mkdir -p "$CHECKOUT/tests"
cp "$HERE/repro_6.rs" "$CHECKOUT/tests/c08_repro_6.rs"
trap 'rm -f "$CHECKOUT/tests/c08_repro_6.rs"; rmdir "$CHECKOUT/tests" 2>/dev/null' EXIT
cd "$CHECKOUT" && cargo test --offline --test c08_repro_6 -- --nocapture 2>&1 | grep -av "^warning\|^ *|\|^ *= \|^ *-->\|^$" | tail -25
exit "${PIPESTATUS[0]}"
