// Round trip of an escaped expectation that contains a newline byte (\x0a or \012):
// rendered as `\n`, which the escaped filter does not resolve back.
use scrut::escaping::Escaper;
use scrut::expectation::ExpectationMaker;
use scrut::rules::registry::RuleRegistry;

#[test]
fn escaped_newline_byte_round_trips() {
    let maker = ExpectationMaker::new(RuleRegistry::default());
    let mut bad = vec![];
    for line in ["foo\\x0abar (esc)", "foo\\012bar (escaped+)", "\\x0a (esc)"] {
        let first = maker.parse(line).expect("parses");
        for escaper in [Escaper::Unicode, Escaper::Ascii] {
            let rendered = first.to_expression_string(&escaper);
            let second = maker.parse(&rendered).expect("rendered form parses");
            let (_, expression, _, _) = first.unmake();
            let (_, expression2, _, _) = second.unmake();
            println!(
                "{line:?}: first matches {:?}; rendered={rendered:?}; second matches {:?}",
                String::from_utf8_lossy(&expression),
                String::from_utf8_lossy(&expression2)
            );
            if first.matches(&expression) != second.matches(&expression)
                || first.matches(&expression2) != second.matches(&expression2)
            {
                bad.push(line);
            }
        }
    }
    assert!(bad.is_empty(), "round trip changed what is matched: {bad:?}");
}
