#!/bin/bash
# a line ending in <NBSP>(glob) (no space before the parenthesis) must be an equal expectation for the whole line
# exits 0 if the property holds (document parses and the test passes), non-zero if violated
CHECKOUT="${1:-/tmp/h_C08}"
SCRUT="$CHECKOUT/target/debug/scrut"
[ -x "$SCRUT" ] || (cd "$CHECKOUT" && cargo build --offline --bin scrut >/dev/null 2>&1)
W="$(mktemp -d)"; trap 'rm -rf "$W"' EXIT
python3 - "$W" <<'PY'
import sys
w = sys.argv[1]
open(w + "/t.md", "w", encoding="utf-8").write("# nbsp\n\n```scrut\n$ printf \x27foo\\xc2\\xa0(glob)\\n\x27\nfoo\u00a0(glob)\n```\n")
PY
cd "$W" && "$SCRUT" test t.md 2>&1 | cut -c1-400 | head -30
exit "${PIPESTATUS[0]}"
