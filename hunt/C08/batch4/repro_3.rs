// C08 repro 3 (borderline): a well-formed escaped expression that is fine as `(esc)` makes the
// line fail to parse as soon as it is combined with `(glob)`, because the glob wants UTF-8.
use scrut::expectation::ExpectationMaker;
use scrut::rules::registry::RuleRegistry;

#[test]
fn escaped_glob_non_utf8() {
    let maker = ExpectationMaker::new(RuleRegistry::default());
    maker.parse("caf\\xe9 (esc)").expect("escaped expression is well-formed");
    maker.parse("caf\\xe9* (glob)").expect("plain glob parses");
    let r = maker.parse("caf\\xe9* (esc) (glob)");
    if let Err(e) = &r { println!("scrut: {e:#}"); }
    assert!(r.is_ok(), "`caf\\xe9* (esc) (glob)` does not parse");
}
