// C08 repro 4 (borderline): well-formed regexes rejected for engine limits, not for being malformed
use scrut::expectation::ExpectationMaker;
use scrut::rules::registry::RuleRegistry;

#[test]
fn regex_limits() {
    let maker = ExpectationMaker::new(RuleRegistry::default());
    let nested = format!("{}a{} (regex)", "(".repeat(249), ")".repeat(249));
    let mut bad = vec![];
    for line in ["\\w{300} (regex)", ".{20000} (regex)", nested.as_str()] {
        if let Err(e) = maker.parse(line) {
            let e = format!("{e:#}");
            println!("{}: {}", &line[..line.len().min(30)], &e[e.len().saturating_sub(90)..]);
            bad.push(line.to_string());
        }
    }
    assert!(bad.is_empty());
}
