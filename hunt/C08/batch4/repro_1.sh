#!/bin/bash
# exits 0 if the property holds for this input, non-zero if violated
CO="${1:-/tmp/h_C08}"
HERE="$(cd "$(dirname "$0")" && pwd)"
mkdir -p "$CO/tests"
cp "$HERE/repro_1.rs" "$CO/tests/c08_repro_1.rs"
(cd "$CO" && cargo test --offline --test c08_repro_1 -- --nocapture)
rc=$?
rm -f "$CO/tests/c08_repro_1.rs"
rmdir "$CO/tests" 2>/dev/null
exit $rc
