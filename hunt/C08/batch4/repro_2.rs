// C08 repro 2: well-formed regular expressions (accepted by the regex crate, also anchored
// the way scrut anchors them) that `parse` rejects, because escape_misused_character_class
// rewrites them into a malformed one.
use scrut::expectation::ExpectationMaker;
use scrut::rules::registry::RuleRegistry;

#[test]
fn wellformed_regex_must_parse() {
    let maker = ExpectationMaker::new(RuleRegistry::default());
    let mut bad = vec![];
    for expr in ["[a-]]", "x[a-]]y", "[\\d-]]"] {
        regex::bytes::Regex::new(expr).expect("well-formed by itself");
        let re = regex::bytes::Regex::new(&format!("^(?:{expr})$")).expect("well-formed when anchored");
        println!("{expr}: regex crate accepts it; matches `a]`: {}", re.is_match(b"a]"));
        if let Err(err) = maker.parse(&format!("{expr} (regex)")) {
            println!("  scrut: {err:#}");
            bad.push(expr);
        }
    }
    assert!(bad.is_empty(), "well-formed regex expectations rejected: {bad:?}");
}
