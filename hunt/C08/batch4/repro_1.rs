// C08 repro 1: an escaped expectation containing the byte 0x0a (written \x0a or \012)
// is rendered canonically as `\n (escaped)`, which parses back as backslash + `n`.
use scrut::escaping::Escaper;
use scrut::expectation::ExpectationMaker;
use scrut::rules::registry::RuleRegistry;

#[test]
fn escaped_lf_byte_round_trip() {
    let maker = ExpectationMaker::new(RuleRegistry::default());
    for line in ["a\\x0ab (esc)", "a\\012b (escaped?)", "a\\x0ab (esc) (glob)"] {
        let e1 = maker.parse(line).expect("parses");
        let rendered = e1.to_expression_string(&Escaper::default());
        let e2 = maker.parse(&rendered).expect("rendered form parses");
        let (_, x1, o1, m1) = e1.unmake();
        let (_, x2, o2, m2) = e2.unmake();
        println!("{line:?} -> rendered {rendered:?}; bytes {x1:?} -> {x2:?}");
        assert_eq!((o1, m1), (o2, m2), "quantifier");
        for probe in [&b"a\nb\n"[..], &b"a\\nb\n"[..], &b"a\nb"[..], &b"a\\nb"[..]] {
            assert_eq!(e1.matches(probe), e2.matches(probe),
                "`{line}` and its canonical form `{rendered}` disagree on line {:?}", String::from_utf8_lossy(probe));
        }
    }
}
