// Round trip of a glob expectation whose (unescaped) text ends in ` (esc)` / ` (escaped)`:
// the canonical rendering drops one marker level, the re-parsed glob matches something else.
use scrut::escaping::Escaper;
use scrut::expectation::ExpectationMaker;
use scrut::rules::registry::RuleRegistry;

#[test]
fn glob_with_literal_escaped_suffix_round_trips() {
    let maker = ExpectationMaker::new(RuleRegistry::default());
    let mut bad = vec![];
    for line in [
        "foo (esc) (esc) (glob)",
        "foo\\x20(esc) (escaped) (glob*)",
        "foo \\(escaped\\) (esc) (glob)",
    ] {
        let first = maker.parse(line).expect("parses");
        let rendered = first.to_expression_string(&Escaper::default());
        let second = maker.parse(&rendered).expect("rendered form parses");
        let (_, expression, optional, multiline) = first.unmake();
        let (_, _, optional2, multiline2) = second.unmake();
        assert_eq!((optional, multiline), (optional2, multiline2));
        // the text the first one was made for
        let mut content = expression.clone();
        content.push(b'\n');
        println!(
            "{line:?}: matches {:?}: first={} rendered={rendered:?} second={}",
            String::from_utf8_lossy(&expression),
            first.matches(&content),
            second.matches(&content)
        );
        if first.matches(&content) != second.matches(&content) {
            bad.push(line);
        }
    }
    assert!(bad.is_empty(), "round trip changed what is matched: {bad:?}");
}
