// ExpectationMaker::parse panics (index out of bounds) on any text that contains a
// line feed, including a single trailing one -- although parse() itself trims
// trailing newlines for the `original` it stores.
use scrut::expectation::ExpectationMaker;
use scrut::rules::registry::RuleRegistry;

#[test]
fn parse_does_not_panic_on_line_feed() {
    let mut panicked = vec![];
    for line in ["foo\n", "foo (glob)\n", "\n", "foo\nbar", "foo\n (regex)"] {
        let result = std::panic::catch_unwind(|| {
            ExpectationMaker::new(RuleRegistry::default())
                .parse(line)
                .map(|e| e.unmake())
        });
        match result {
            Ok(parsed) => println!("{line:?}: {parsed:?}"),
            Err(_) => {
                println!("{line:?}: PANIC");
                panicked.push(line)
            }
        }
    }
    assert!(panicked.is_empty(), "parse crashed for {panicked:?}");
}
