#!/bin/bash
# valid verbose-mode regex ending in a comment is rejected at parse time
# exits 0 if the property holds (document parses and the test passes), non-zero if violated
CHECKOUT="${1:-/tmp/h_C08}"
SCRUT="$CHECKOUT/target/debug/scrut"
[ -x "$SCRUT" ] || (cd "$CHECKOUT" && cargo build --offline --bin scrut >/dev/null 2>&1)
W="$(mktemp -d)"; trap 'rm -rf "$W"' EXIT
python3 - "$W" <<'PY'
import sys
w = sys.argv[1]
open(w + "/t.md", "w").write("# verbose regex\n\n```scrut\n$ echo ab\n(?x) a b # two letters (regex)\n```\n")
PY
cd "$W" && "$SCRUT" test t.md 2>&1 | cut -c1-400 | head -30
exit "${PIPESTATUS[0]}"
