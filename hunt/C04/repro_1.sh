#!/bin/bash
# usage: repro_N.sh [checkout]   exit 0 = property holds for these inputs, non-zero = violated
CO=${1:-/tmp/h_C04}
BIN="$CO/target/debug/scrut"
if [ ! -x "$BIN" ]; then (cd "$CO" && cargo build --offline --bin scrut >/dev/null 2>&1) || { echo "cannot build scrut"; exit 99; }; fi
W=$(mktemp -d)
bad=0
n=0
# check <match|nomatch> <shell command producing one line> <expectation line> [md|t]
check() {
  local want="$1" cmd="$2" exp="$3" fmt="${4:-md}" f rc
  n=$((n+1))
  if [ "$fmt" = md ]; then
    f="$W/case$n.md"
    printf '# case\n\n```scrut\n$ %s\n%s\n```\n' "$cmd" "$exp" > "$f"
  else
    f="$W/case$n.t"
    printf 'case\n\n  $ %s\n  %s\n' "$cmd" "$exp" > "$f"
  fi
  RUST_BACKTRACE=0 "$BIN" test "$f" > "$W/out$n.txt" 2>&1
  rc=$?
  local got
  case $rc in 0) got=match;; 50) got=nomatch;; *) got="error(rc=$rc)";; esac
  if [ "$got" = "$want" ]; then
    echo "holds    : [$fmt] \`$cmd\` vs \`$exp\` -> $got"
  else
    echo "VIOLATED : [$fmt] \`$cmd\` vs \`$exp\` -> property demands $want, scrut says $got"
    grep -E '^[0-9 ]+\| |error|Error' "$W/out$n.txt" | head -6 | sed 's/^/             /'
    bad=1
  fi
}
# open-ended counted repetition {n,} (and {n, m} with blanks) is turned into literal braces
check match   "echo aaa"        'a{2,} (regex)'
check nomatch "echo 'a{2,}'"    'a{2,} (regex)'
check match   "echo 123-4567"   '\d{3}-\d{2,} (regex)'
check match   "echo aa"         'a{ 2 } (regex)'

exit $bad
