#!/bin/bash
# regex: a character class followed later by a literal `]` (valid regex-crate syntax)
. "$(dirname "$0")/_lib.sh"
cat > "$W/a.md" <<'DOC'
# a
```scrut
$ echo 'CRON[123]: hello'
[A-Z]+\[\d+]: .* (regex)
```
DOC
cat > "$W/b.md" <<'DOC'
# b
```scrut
$ echo '[2024-01]'
\[[0-9]{4}-[0-9]{2}] (regex)
```
DOC
cat > "$W/c.md" <<'DOC'
# c : `[a]]` is class [a] + literal `]`; the line `]` alone must NOT match
```scrut
$ echo ']'
[a]] (regex)
```
DOC
r1=$(run_doc "$W/a.md"); r2=$(run_doc "$W/b.md"); r3=$(run_doc "$W/c.md")
echo "a (must PASS): $r1 ; b (must PASS): $r2 ; c (must FAIL): $r3"
[ "$r1" = PASS ] && [ "$r2" = PASS ] && [ "$r3" = FAIL ]
