#!/bin/bash
# regex: nested character class / intersection `[a-z&&[^aeiou]]` (documented regex-crate syntax)
. "$(dirname "$0")/_lib.sh"
cat > "$W/a.md" <<'DOC'
# consonant must match
```scrut
$ echo b
[a-z&&[^aeiou]] (regex)
```
DOC
cat > "$W/b.md" <<'DOC'
# vowel must not match
```scrut
$ echo a
[a-z&&[^aeiou]] (regex)
```
DOC
cat > "$W/c.md" <<'DOC'
# union [a-c[x-z]] must not match a literal [
```scrut
$ echo '['
[a-c[x-z]] (regex)
```
DOC
r1=$(run_doc "$W/a.md"); r2=$(run_doc "$W/b.md"); r3=$(run_doc "$W/c.md")
echo "a (must PASS): $r1 ; b (must FAIL): $r2 ; c (must FAIL): $r3"
[ "$r1" = PASS ] && [ "$r2" = FAIL ] && [ "$r3" = FAIL ]
