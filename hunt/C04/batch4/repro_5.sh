#!/bin/bash
# equal: an expectation whose text ends in <NO-BREAK SPACE>(glob) is not ` (glob)` per the documented
# grammar (`<expression> (<mod>)`, a plain space) and so is an equal expectation for exactly that text
. "$(dirname "$0")/_lib.sh"
printf '# a\n```scrut\n$ printf '"'"'foo\\xc2\\xa0(glob)\\n'"'"'\nfoo\xc2\xa0(glob)\n```\n' > "$W/a.md"
printf '# b\n```scrut\n$ echo foo\nfoo\xc2\xa0(glob)\n```\n' > "$W/b.md"
r1=$(run_doc "$W/a.md"); r2=$(run_doc "$W/b.md")
echo "a: line == expression+newline (must PASS): $r1 ; b: line 'foo' (must FAIL): $r2"
[ "$r1" = PASS ] && [ "$r2" = FAIL ]
