#!/bin/bash
# glob (markdown / wildmatch rule): literal U+FFFD in the expression matches any invalid UTF-8 byte
. "$(dirname "$0")/_lib.sh"
printf '# a\n```scrut\n$ printf '"'"'a\\xffb\\n'"'"'\na\xef\xbf\xbdb (glob)\n```\n' > "$W/a.md"
r1=$(run_doc "$W/a.md")
echo "glob 'a<U+FFFD>b' vs line bytes 61 ff 62 (must FAIL, literal chars differ): $r1"
[ "$r1" = FAIL ]
