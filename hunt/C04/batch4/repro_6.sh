#!/bin/bash
# regex (siblings of the already-known `\<` / (?x)-comment repairs): `\>` and `(?x)a\ b`
. "$(dirname "$0")/_lib.sh"
cat > "$W/a.md" <<'DOC'
# a: escaped space in x-mode is a literal space
```scrut
$ echo "a b"
(?x)a\ b (regex)
```
DOC
cat > "$W/b.md" <<'DOC'
# b: ... and must not match `ab`
```scrut
$ echo "ab"
(?x)a\ b (regex)
```
DOC
cat > "$W/c.md" <<'DOC'
# c: \> is the end-of-word assertion in the regex crate, not a literal >
```scrut
$ echo "a>"
a\> (regex)
```
DOC
r1=$(run_doc "$W/a.md"); r2=$(run_doc "$W/b.md"); r3=$(run_doc "$W/c.md")
echo "a (must PASS): $r1 ; b (must FAIL): $r2 ; c (must FAIL): $r3"
[ "$r1" = PASS ] && [ "$r2" = FAIL ] && [ "$r3" = FAIL ]
