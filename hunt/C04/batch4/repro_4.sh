#!/bin/bash
# regex: `.*` / `[^a]+` / `\S+` do not match a line that contains a byte that is not valid UTF-8
. "$(dirname "$0")/_lib.sh"
cat > "$W/a.md" <<'DOC'
# a
```scrut
$ printf 'a\xffb\n'
.* (regex)
```
DOC
cat > "$W/b.md" <<'DOC'
# b
```scrut
$ printf 'a\xffb\n'
\S+ (regex)
```
DOC
r1=$(run_doc "$W/a.md"); r2=$(run_doc "$W/b.md")
echo "a (must PASS): $r1 ; b (must PASS): $r2"
[ "$r1" = PASS ] && [ "$r2" = PASS ]
