#!/bin/bash
# C05 violation: a detached test case (no exit code is ever obtained; here the
# command even exits with 7 while 0 is expected) is reported as succeeded when a
# later test case runs into a timeout.
. "$(dirname "$0")/repro_common.sh"
cat > "$WORK/a.md" <<'DOC'
# detached + timeout

## detachedcase

```scrut {detached: true}
$ sleep 0.1; exit 7
```

## slow

```scrut {timeout: 300ms}
$ sleep 2
```
DOC
J=$(run_json a.md); echo "$J" | cut -c1-600
(cd "$WORK" && "$SCRUT" test a.md 2>&1 | tail -1)
if succeeded "$J" detachedcase; then echo "VIOLATION: detached test case (no exit code known) reported as success"; exit 1; fi
echo "property holds"; exit 0
