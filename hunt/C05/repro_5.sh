#!/bin/bash
# C05 vs. the skip feature (borderline, documented behaviour): a test case that
# RAN and ended with a wrong exit code is not reported as such when a later test
# case exits with the skip code 80: everything is "skipped" and scrut exits 0.
. "$(dirname "$0")/repro_common.sh"
cat > "$WORK/a.md" <<'DOC'
# skip

## wrongcode

```scrut
$ echo a; exit 3
a
```

## skipper

```scrut
$ exit 80
```
DOC
J=$(run_json a.md); rc=$?; echo "$J" | cut -c1-2000 | grep -o '"result":{[^}]*}'
echo "scrut exit code: $rc"
if ! printf '%s' "$J" | grep -q '"kind":"invalid_exit_code"'; then echo "VIOLATION: wrong exit code 3 (expected 0) of the first test case is not reported (reported: skipped, scrut exit code $rc)"; exit 1; fi
echo "property holds"; exit 0
