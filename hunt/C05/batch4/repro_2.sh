#!/bin/bash
# C05 violation 2: a shell that is started with SHELLOPTS=noexec / onecmd (from the
# environment scrut runs in, or from the `environment:` configuration of the test case)
# or with a BASH_ENV file that exits, never runs the test; scrut reports it as succeeded.
# Exits 0 if the property holds, non-zero if violated.
CO=${1:-/tmp/h_C05}
SCRUT=$CO/target/debug/scrut
[ -x "$SCRUT" ] || (cd "$CO" && cargo build --offline --bin scrut >/dev/null 2>&1)
W=$(mktemp -d); trap 'rm -rf "$W"' EXIT
cd "$W"
printf '# T\n\n```scrut\n$ echo hello; exit 3\n```\n' > plain.md
printf '# T\n\n```scrut {environment: {SHELLOPTS: "noexec"}}\n$ echo hello; exit 3\n```\n' > cfg.md
echo 'exit 0' > benv.sh
bad=0
run() { # label, then command
  local label=$1; shift
  "$@" > out.txt 2>&1; local r=$?
  echo "$label: scrut exit $r: $(grep Result out.txt)"
  [ $r -eq 0 ] && bad=1   # the test ends in exit code 3 with output, it can never pass
}
run "baseline (must fail)"            "$SCRUT" test --no-color plain.md
[ $bad -eq 0 ] || { echo "baseline broken"; exit 2; }
run "env SHELLOPTS=noexec"            env SHELLOPTS=noexec "$SCRUT" test --no-color plain.md
run "env SHELLOPTS=onecmd"            env SHELLOPTS=onecmd "$SCRUT" test --no-color plain.md
run "environment: {SHELLOPTS: noexec}" "$SCRUT" test --no-color cfg.md
run "env BASH_ENV=<file with exit 0>" env BASH_ENV="$W/benv.sh" "$SCRUT" test --no-color plain.md
if [ $bad -eq 0 ]; then echo "property holds"; exit 0; fi
echo "VIOLATED"; exit 1
