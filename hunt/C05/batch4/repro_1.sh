#!/bin/bash
# C05 violation 1: `ulimit -n 3` in a test makes scrut's EXIT-trap (state persisting)
# die with a bash-internal fatal error; the exit code of the test is replaced by 129.
# Exits 0 if the property holds, non-zero if violated.
CO=${1:-/tmp/h_C05}
SCRUT=$CO/target/debug/scrut
[ -x "$SCRUT" ] || (cd "$CO" && cargo build --offline --bin scrut >/dev/null 2>&1)
W=$(mktemp -d); trap 'rm -rf "$W"' EXIT
# (a) expression terminates with 3, expected 3 -> must succeed
printf '# T\n\n```scrut\n$ ulimit -n 3; exit 3\n[3]\n```\n' > "$W/a.md"
# (b) expression terminates with 3, expected 129 -> must NOT succeed
printf '# T\n\n```scrut\n$ ulimit -n 3; exit 3\n[129]\n```\n' > "$W/b.md"
cd "$W"
"$SCRUT" test --no-color a.md >a.out 2>&1; ra=$?
"$SCRUT" test --no-color b.md >b.out 2>&1; rb=$?
echo "a (expected [3], real exit 3): scrut exit $ra"; grep -E "actual|Result" a.out
echo "b (expected [129], real exit 3): scrut exit $rb"; grep -E "actual|Result" b.out
if [ $ra -eq 0 ] && [ $rb -ne 0 ]; then echo "property holds"; exit 0; fi
echo "VIOLATED"; exit 1
