#!/bin/bash
# C05 borderline 3: a line of a multi-line shell expression that reads (or closes)
# standard input swallows the remaining lines of the expression, because scrut feeds
# the script to bash over STDIN; the rest never runs and the test is reported as succeeded.
# Exits 0 if the property holds (test is not reported as succeeded), non-zero otherwise.
CO=${1:-/tmp/h_C05}
SCRUT=$CO/target/debug/scrut
[ -x "$SCRUT" ] || (cd "$CO" && cargo build --offline --bin scrut >/dev/null 2>&1)
W=$(mktemp -d); trap 'rm -rf "$W"' EXIT
cd "$W"
printf '# T\n\n```scrut\n$ cat > /dev/null\n> echo never printed\n> exit 5\n```\n\n```scrut\n$ exec 0<&-\n> echo never printed\n> exit 5\n```\n' > t.md
"$SCRUT" test --no-color t.md > out.txt 2>&1; r=$?
grep Result out.txt
# `bash -c "$expression"` gives 5 for both; expected code is 0, so neither may pass
if [ $r -ne 0 ]; then echo "property holds"; exit 0; fi
echo "VIOLATED (both reported as succeeded, 'echo' and 'exit 5' never ran)"; exit 1
