#!/bin/bash
# C05 violation: a function named `exit` (or command/trap/unset/[) defined by an
# earlier test case is what scrut's own wrapper (bash_runner.template) calls;
# exit code and stdout of LATER test cases are no longer those of their shell
# expression.
# exit 0 = property holds, 1 = violated
. "$(dirname "$0")/repro_common.sh"
cat > "$WORK/a.md" <<'DOC'
# exit function, hard variant

## define

```scrut
$ exit() { builtin exit 0; }
```

## mustfail

```scrut
$ false
```
DOC
cat > "$WORK/b.md" <<'DOC'
# exit function, mock variant (as used to unit-test shell code that calls exit)

## define

```scrut {output_stream: stderr}
$ exit() { echo "mock exit $*"; }
```

## mustpass

```scrut
$ echo hi
hi
```

## mustfailtoo

```scrut
$ true
mock exit 0
```
DOC
bad=0
J=$(run_json a.md); echo "$J"
if succeeded "$J" mustfail; then echo "VIOLATION: 'false' (exit code 1, expected 0) reported as success"; bad=1; fi
J=$(run_json b.md); echo "$J" | cut -c1-1500
if ! succeeded "$J" mustpass; then echo "VIOLATION: 'echo hi' (exit 0, stdout 'hi', expectation 'hi') not reported as success"; bad=1; fi
if succeeded "$J" mustfailtoo; then echo "VIOLATION: 'true' (prints nothing) reported as success against expectation 'mock exit 0'"; bad=1; fi
[ $bad -eq 0 ] && echo "property holds"
exit $bad
