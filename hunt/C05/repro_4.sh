#!/bin/bash
# C05 (weaker): with xtrace on (set in an earlier test case or in the same one),
# the stderr / combined stream of a test case holds the trace of scrut's own
# wrapper (state restore, __scrut_persist_state), not only what the shell
# expression wrote. `echo hi` writes exactly "+ echo hi" to stderr under set -x.
. "$(dirname "$0")/repro_common.sh"
cat > "$WORK/a.md" <<'DOC'
# xtrace

## setx

```scrut
$ set -x
```

## traced

```scrut {output_stream: stderr}
$ echo hi
+ echo hi
```
DOC
J=$(run_json a.md); echo "$J" | cut -c1-700
if ! succeeded "$J" traced; then echo "VIOLATION: exit code 0 and the expression's stderr is '+ echo hi', but the case is not reported as success (stream holds scrut's own trace)"; exit 1; fi
echo "property holds"; exit 0
