#!/bin/bash
# C05 violation: `set -t` (onecmd) in one test case is persisted; the shells of
# all later test cases exit with 0 while the state is restored, i.e. before the
# shell expression is started. The later test cases never run and are reported
# as succeeded.
. "$(dirname "$0")/repro_common.sh"
cat > "$WORK/a.md" <<'DOC'
# onecmd

## setopt

```scrut
$ set -t
```

## neverrun1

```scrut
$ false
```

## neverrun2

```scrut
$ echo hi; exit 9
```
DOC
J=$(run_json a.md); echo "$J" | cut -c1-600
bad=0
for t in neverrun1 neverrun2; do
  if succeeded "$J" $t; then echo "VIOLATION: $t reported as success (its expression would exit non-zero; it was never started)"; bad=1; fi
done
[ $bad -eq 0 ] && echo "property holds"
exit $bad
