# sourced by the repro scripts: builds scrut if needed, provides helpers
CHECKOUT=${1:-/tmp/h_C05}
SCRUT="$CHECKOUT/target/debug/scrut"
if [ ! -x "$SCRUT" ]; then
    (cd "$CHECKOUT" && cargo build --offline --bin scrut >/dev/null 2>&1) || { echo "build failed"; exit 99; }
fi
export RUST_BACKTRACE=0
WORK=$(mktemp -d /tmp/c05repro.XXXXXX)
trap 'rm -rf "$WORK"' EXIT
# succeeded <json> <title>  -> true if the test case with that title is reported as success
succeeded() { printf '%s' "$1" | grep -q "\"title\":\"$2\",\"result\":{\"kind\":\"success\"}"; }
run_json() { (cd "$WORK" && "$SCRUT" test -r json "$@" 2>"$WORK/stderr"); }
