#!/usr/bin/env bash
# C20 violation 7: Markdown document; the shell expression of test #1 is
# larger than the pipe buffer (64 KiB) and the shell exits before having read
# all of it (`exit 0` in the first line). scrut reports a *timeout* after a few
# milliseconds (total_timeout is 15 minutes), does not execute test #2 and
# exits 50. Demanded: both test cases executed once, 2 succeeded, exit 0.
. "$(dirname "$0")/_lib.sh"
{
  printf '```scrut\n$ echo b1 >> %s; exit 0\n' "$LOG"
  for i in $(seq 1 3000); do printf '> : xxxxxxxxxxxxxxxxxxxxxxxxxxxxxxxxxxxxxxxxxxxxxxxxxxxxxxxxxxxx\n'; done
  printf '```\n\n```scrut\n$ echo b2 >> %s\n```\n' "$LOG"
} > big.md
: > "$LOG"
start=$(date +%s.%N)
out="$("$SCRUT" test big.md 2>&1)"; rc=$?
end=$(date +%s.%N)
log="$(tr '\n' ' ' < "$LOG")"
echo "exit=$rc after $(echo "$end - $start" | bc)s, executed: $log"
echo "$out" | grep -a "timed out\|^timeout in\|Result"
if [ "$rc" != 0 ] || [ "$log" != "b1 b2 " ]; then echo "VIOLATED"; exit 1; fi
exit 0
