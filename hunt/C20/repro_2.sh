#!/usr/bin/env bash
# C20 violation 2: Cram document, all test cases pass, one of them enables
# xtrace / verbose: scrut exits 1 ("parse divider exit code") instead of 0.
. "$(dirname "$0")/_lib.sh"
violated=0
for opt in 'set -x' 'set -v'; do
  printf '  $ echo c1 >> %s\n\n  $ %s\n\n  $ echo c3 >> %s\n' "$LOG" "$opt" "$LOG" > doc.t
  : > "$LOG"
  out="$("$SCRUT" test doc.t 2>&1)"; rc=$?
  log="$(tr '\n' ' ' < "$LOG")"
  # (output expectations aside, the exit status must be 0 or 50, never 1:
  # every document was readable, parsable and the shell started)
  if [ "$rc" = 1 ] || ! grep -q "with 3 testcase(s)" <<<"$out"; then
    echo "VIOLATED [$opt]: exit=$rc, executed: $log"
    echo "$out" | grep -a "ERROR\|Result" | head -2 | sed 's/^/    /'
    violated=1
  else
    echo "holds [$opt]: exit=$rc"
  fi
done
exit $violated
