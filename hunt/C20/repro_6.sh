#!/usr/bin/env bash
# C20 violation 6: stdout cannot be written (closed pipe, full device): all
# test cases pass but scrut panics in print! and exits 101 - which is neither
# 0, 50 nor 1.
. "$(dirname "$0")/_lib.sh"
printf '```scrut\n$ echo a\na\n```\n' > a.md
"$SCRUT" test a.md > /dev/full 2>err.txt; rc=$?
echo "exit with stdout=/dev/full: $rc"; head -3 err.txt | grep -a panicked
case "$rc" in 0|50|1) exit 0;; *) echo "VIOLATED: exit status $rc is not one of 0 / 50 / 1"; exit 1;; esac
