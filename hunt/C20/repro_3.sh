#!/usr/bin/env bash
# C20 violation 3: a Cram document with a Markdown document prepended (or
# appended) via -P / -A: scrut exits 1 ("inconsistent configuration value for
# output_stream / keep_crlf"), nothing is executed. All test cases would pass.
. "$(dirname "$0")/_lib.sh"
printf '```scrut\n$ echo p1 >> %s\n```\n' "$LOG" > setup.md
printf '```scrut\n$ echo a1 >> %s\n```\n' "$LOG" > teardown.md
printf '  $ echo c1 >> %s\n\n  $ echo c2 >> %s\n' "$LOG" "$LOG" > main.t
violated=0
: > "$LOG"; out="$("$SCRUT" test main.t -P setup.md 2>&1)"; rc=$?
log="$(tr '\n' ' ' < "$LOG")"
if [ "$rc" != 0 ] || [ "$log" != "p1 c1 c2 " ]; then
  echo "VIOLATED [-P setup.md main.t]: exit=$rc (demanded 0), executed: '$log' (demanded 'p1 c1 c2')"
  echo "$out" | grep -a "ERROR\|Result" | head -2 | sed 's/^/    /'; violated=1
fi
: > "$LOG"; out="$("$SCRUT" test main.t -A teardown.md 2>&1)"; rc=$?
log="$(tr '\n' ' ' < "$LOG")"
if [ "$rc" != 0 ] || [ "$log" != "c1 c2 a1 " ]; then
  echo "VIOLATED [-A teardown.md main.t]: exit=$rc (demanded 0), executed: '$log' (demanded 'c1 c2 a1')"
  echo "$out" | grep -a "ERROR\|Result" | head -2 | sed 's/^/    /'; violated=1
fi
# control: the other direction works
: > "$LOG"; printf '  $ echo p1 >> %s\n' "$LOG" > setup.t
printf '```scrut\n$ echo m1 >> %s\n```\n' "$LOG" > main.md
"$SCRUT" test main.md -P setup.t >/dev/null 2>&1; echo "control (md main, cram prepend): exit=$? executed: $(tr '\n' ' ' < "$LOG")"
exit $violated
