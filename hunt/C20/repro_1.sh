#!/usr/bin/env bash
# C20 violation 1: Cram documents - a test case that fails (exit code / syntax
# error / errexit) or that touches stdout/stdin makes scrut exit 1 without any
# result, instead of 50 (or 0) with one result per test case.
. "$(dirname "$0")/_lib.sh"
violated=0
check() { # name expected_exit expected_log  (document in $W/doc.t)
  : > "$LOG"
  out="$("$SCRUT" test doc.t 2>&1)"; rc=$?
  log="$(tr '\n' ' ' < "$LOG")"
  if [ "$rc" != "$2" ] || ! grep -q "with 3 testcase(s)" <<<"$out"; then
    echo "VIOLATED [$1]: exit=$rc (property demands $2), executed: $log"
    echo "$out" | grep -a "ERROR\|Result" | head -2 | sed 's/^/    /'
    violated=1
  else
    echo "holds [$1]: exit=$rc executed: $log"
  fi
}
doc() { printf '  $ echo c1 >> %s\n\n  $ echo c2 >> %s; %s\n\n  $ echo c3 >> %s\n' "$LOG" "$LOG" "$1" "$LOG" > doc.t; }
doc 'exit 3';              check "fail on exit code: exit 3" 50
doc 'if then fi';          check "fail: syntax error in one test" 50
doc 'set -e; false';       check "fail: errexit + failing command" 50
doc 'set -u; echo $NOPE_X'; check "fail: nounset + unbound variable" 50
doc 'exec >/dev/null';     check "pass: stdout redirected by exec" 0
doc 'cat >/dev/null';      check "pass: test reads stdin" 0
exit $violated
