# shared helpers for the repro scripts (sourced)
CHECKOUT="${1:-/tmp/h_C20}"
SCRUT="$CHECKOUT/target/debug/scrut"
if [ ! -x "$SCRUT" ]; then
  (cd "$CHECKOUT" && cargo build --offline --bin scrut >/dev/null 2>&1)
fi
[ -x "$SCRUT" ] || { echo "scrut binary not found at $SCRUT" >&2; exit 2; }
export RUST_BACKTRACE=0
W="$(mktemp -d /tmp/c20repro.XXXXXX)"
trap 'rm -rf "$W"' EXIT
LOG="$W/log"
cd "$W"
