#!/bin/bash
# C20 repro 6: in a Cram document a command that reads standard input (`cat`)
# swallows the rest of the generated script; scrut then exits with 1 (error)
# although the document is readable, parsable and the shell started.
CO="${1:-/tmp/h_C20}"; S="$CO/target/debug/scrut"
W="$(mktemp -d)"; trap 'rm -rf "$W"' EXIT; cd "$W" || exit 2
printf '  $ echo a\n  a\n  $ cat\n  $ echo c\n  c\n' > stdin.t
out="$("$S" test stdin.t 2>&1)"; rc=$?
echo "$out" | head -2; echo "rc=$rc"
[ "$rc" = 0 ] || [ "$rc" = 50 ]
