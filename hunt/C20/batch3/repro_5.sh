#!/bin/bash
# C20 repro 5: a test case whose shell ends before scrut has written the whole
# script to it (script larger than the pipe buffer, here `exit 0` followed by
# 260 KB of comment lines) is reported as timed out (per-document timeout
# "after 15m", within 0.2 s) - or, with --timeout-seconds 0, as exit code -255 -
# and the test cases after it are never executed.
CO="${1:-/tmp/h_C20}"; S="$CO/target/debug/scrut"
W="$(mktemp -d)"; trap 'rm -rf "$W"' EXIT; cd "$W" || exit 2
{
printf '```scrut\n$ echo first\nfirst\n```\n\n```scrut\n$ exit 0\n'
for i in $(seq 1 3000); do printf '> # padding line %05d xxxxxxxxxxxxxxxxxxxxxxxxxxxxxxxxxxxxxxxxxxxxxxxxxxxxxxxxxxxxxxxx\n' "$i"; done
printf '```\n\n```scrut\n$ echo third > "$TESTDIR/third_ran.txt"; echo third\nthird\n```\n'
} > bigexit.md
bad=0
out="$("$S" test --no-color bigexit.md 2>&1)"; rc=$?
echo "$out" | grep -v '^//' | tail -4; echo "rc=$rc"
# `exit 0` without expected output passes, so do the other two: exit 0, 3 succeeded
[ "$rc" = 0 ] || bad=1
[ -f third_ran.txt ] || { echo "third test case was never executed"; bad=1; }
rm -f third_ran.txt
out="$("$S" test --no-color --timeout-seconds 0 bigexit.md 2>&1)"; rc=$?
echo "$out" | grep -v '^//' | tail -2; echo "rc=$rc (--timeout-seconds 0)"
[ "$rc" = 0 ] || bad=1
[ -f third_ran.txt ] || { echo "third test case was never executed"; bad=1; }
exit $bad
