#!/bin/bash
# C20 repro 4: the counters scrut reports at info level do not add up: a
# skipped document counts as 1 skipped, however many test cases it has, and
# disagrees with the summary line of the same run.
CO="${1:-/tmp/h_C20}"; S="$CO/target/debug/scrut"
W="$(mktemp -d)"; trap 'rm -rf "$W"' EXIT; cd "$W" || exit 2
printf '```scrut\n$ echo a1\na1\n```\n\n```scrut\n$ exit 80\n```\n\n```scrut\n$ echo a3\na3\n```\n' > skip.md
out="$("$S" test --log-level info --no-color skip.md 2>&1)"
line="$(echo "$out" | grep -o 'success=[0-9]* skipped=[0-9]* failed=[0-9]* detached=[0-9]*')"
echo "$line"; echo "$out" | grep '^Result'
eval "$line"
total=$((success + skipped + failed))
echo "success+skipped+failed=$total, test cases=3"
[ "$total" = 3 ]
