#!/bin/bash
# C20 repro 3: an invalid RUST_LOG value in the environment makes scrut panic
# (exit 101) instead of exiting with 1 (or running the tests).
CO="${1:-/tmp/h_C20}"; S="$CO/target/debug/scrut"
W="$(mktemp -d)"; trap 'rm -rf "$W"' EXIT; cd "$W" || exit 2
printf '```scrut\n$ echo a\na\n```\n' > a.md
RUST_LOG='foo=bar=baz' "$S" test a.md >/dev/null 2>&1; rc=$?
echo "RUST_LOG='foo=bar=baz' scrut test a.md -> rc=$rc"
[ "$rc" = 0 ] || [ "$rc" = 1 ]
