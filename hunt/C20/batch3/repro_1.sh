#!/bin/bash
# C20 repro 1: an explicitly given document whose name matches neither glob
# is silently dropped (0 documents, exit 0) although it holds a failing test.
# exit 0 = property holds, non-zero = violated
CO="${1:-/tmp/h_C20}"; S="$CO/target/debug/scrut"
W="$(mktemp -d)"; trap 'rm -rf "$W"' EXIT; cd "$W" || exit 2
printf '# B\n\n```scrut\n$ echo b1\nWRONG\n```\n' > b.txt
cp b.txt B.MD
printf '```scrut\n$ echo ok\nok\n```\n' > main.md
bad=0
out="$("$S" test b.txt 2>&1)"; rc=$?
echo "scrut test b.txt -> rc=$rc: $out"
# the test case in b.txt fails: 50 (run) or 1 (cannot handle the document) would be fine
[ "$rc" = 50 ] || [ "$rc" = 1 ] || bad=1
out="$("$S" test B.MD 2>&1)"; rc=$?
echo "scrut test B.MD -> rc=$rc: $out"
[ "$rc" = 50 ] || [ "$rc" = 1 ] || bad=1
# same for a prepended document: its (failing) test case is never run
out="$("$S" test -P b.txt -- main.md 2>&1)"; rc=$?
echo "scrut test -P b.txt -- main.md -> rc=$rc: $out"
[ "$rc" = 50 ] || [ "$rc" = 1 ] || bad=1
exit $bad
