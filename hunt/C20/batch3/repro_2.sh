#!/bin/bash
# C20 repro 2: very large timeout values make scrut panic (exit 101) instead
# of exiting with 0 (all test cases pass) or 1.
CO="${1:-/tmp/h_C20}"; S="$CO/target/debug/scrut"
W="$(mktemp -d)"; trap 'rm -rf "$W"' EXIT; cd "$W" || exit 2
printf '```scrut\n$ echo a\na\n```\n' > a.md
printf -- '---\ntotal_timeout: 18446744073709551615s\n---\n```scrut\n$ echo a\na\n```\n' > fm.md
printf '```scrut {timeout: 500000000000y}\n$ echo a\na\n```\n' > per.md
bad=0
"$S" test --timeout-seconds 18446744073709551615 a.md >/dev/null 2>&1; rc=$?
echo "--timeout-seconds 18446744073709551615 -> rc=$rc"; [ "$rc" = 0 ] || [ "$rc" = 1 ] || bad=1
"$S" test fm.md >/dev/null 2>&1; rc=$?
echo "front-matter total_timeout: 18446744073709551615s -> rc=$rc"; [ "$rc" = 0 ] || [ "$rc" = 1 ] || bad=1
"$S" test --timeout-seconds 0 per.md >/dev/null 2>&1; rc=$?
echo "per-test timeout: 500000000000y with --timeout-seconds 0 -> rc=$rc"; [ "$rc" = 0 ] || [ "$rc" = 1 ] || bad=1
exit $bad
