#!/bin/bash
# C20 repro 7: a dangling symlink that is not a test document (name matches no
# glob) inside a scanned directory aborts the whole run with exit 1, although
# all documents are readable; the failing test case should give 50.
CO="${1:-/tmp/h_C20}"; S="$CO/target/debug/scrut"
W="$(mktemp -d)"; trap 'rm -rf "$W"' EXIT; cd "$W" || exit 2
mkdir d
printf '```scrut\n$ echo a\na\n```\n' > d/a.md
printf '```scrut\n$ echo b\nWRONG\n```\n' > d/b.md
ln -s does-not-exist d/notadoc
out="$("$S" test d 2>&1)"; rc=$?
echo "$out" | grep -m3 'Error\|Caused\|Result'; echo "rc=$rc"
[ "$rc" = 50 ]
