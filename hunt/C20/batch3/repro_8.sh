#!/bin/bash
# C20 repro 8: a write error on STDERR while scrut reports an error makes it
# panic (exit 101) instead of exiting with 1.
CO="${1:-/tmp/h_C20}"; S="$CO/target/debug/scrut"
W="$(mktemp -d)"; trap 'rm -rf "$W"' EXIT; cd "$W" || exit 2
"$S" test does-not-exist.md 2>/dev/full; rc=$?
echo "scrut test does-not-exist.md 2>/dev/full -> rc=$rc"
[ "$rc" = 1 ]
