#!/usr/bin/env bash
# C20 violation 5: a document whose text contains a raw ESC that starts an
# OSC/DCS/SOS/PM/APC sequence (here: in the shell expression of a failing
# test). On a non-TTY / with --no-color the pretty renderer strips "colors"
# from the WHOLE rendering, which swallows everything after that ESC: the
# results of all later test cases and the summary line are not reported.
. "$(dirname "$0")/_lib.sh"
printf '```scrut\n$ echo one; echo "\x1b]0;title"\nnope1\n```\n\n```scrut\n$ echo two\nnope2\n```\n\n```scrut\n$ echo three\nthree\n```\n' > osc.md
out="$("$SCRUT" test --no-color osc.md 2>/dev/null)"; rc=$?
violated=0
echo "exit=$rc"
if ! grep -q "Result: 1 document(s) with 3 testcase(s): 1 succeeded, 2 failed and 0 skipped" <<<"$out"; then
  echo "VIOLATED: no summary line (succeeded + failed + skipped) in the report"; violated=1
fi
if ! grep -q "nope2" <<<"$out"; then
  echo "VIOLATED: no result reported for the failed test case #2"; violated=1
fi
echo "--- report as printed (cat -v) ---"; echo "$out" | cat -v
echo "--- control: same run, json renderer reports $( "$SCRUT" test -r json osc.md 2>/dev/null | grep -o '"kind":"[a-z_]*"' | grep -c 'malformed_output\|success') results"
exit $violated
