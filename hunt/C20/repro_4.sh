#!/usr/bin/env bash
# C20 violation 4: --cram-compat run over a Markdown document that has a
# detached test case: scrut exits 1 instead of 0.
. "$(dirname "$0")/_lib.sh"
violated=0
printf '```scrut {detached: true}\n$ echo d1 >> %s\n```\n' "$LOG" > det1.md
printf '```scrut {detached: true}\n$ echo d1 >> %s\n```\n\n```scrut\n$ sleep 0.3; echo d2 >> %s\n```\n' "$LOG" "$LOG" > det2.md
for d in det1.md det2.md; do
  : > "$LOG"; out="$("$SCRUT" test --cram-compat $d 2>&1)"; rc=$?; sleep 0.5
  if [ "$rc" != 0 ]; then
    echo "VIOLATED [--cram-compat $d]: exit=$rc (demanded 0), executed: $(tr '\n' ' ' < "$LOG")"
    echo "$out" | grep -a "ERROR\|Result" | head -2 | sed 's/^/    /'; violated=1
  fi
  : > "$LOG"; "$SCRUT" test $d >/dev/null 2>&1; echo "control [without --cram-compat $d]: exit=$?"
done
exit $violated
