#!/usr/bin/env bash
# C20 finding 9 (borderline, see findings.md): Markdown document in which the
# shell of test #2 is killed by a signal. Tests #3 and #4 are never executed,
# but are reported as FAILED with a made-up exit code -255 (not as skipped);
# the detached #4 is reported as failed as well.
. "$(dirname "$0")/_lib.sh"
printf '```scrut\n$ echo k1 >> %s\n```\n\n```scrut\n$ echo k2 >> %s; kill -9 $$\n```\n\n```scrut\n$ echo k3 >> %s\n```\n\n```scrut {detached: true}\n$ echo k4 >> %s\n```\n' "$LOG" "$LOG" "$LOG" "$LOG" > kill.md
: > "$LOG"
out="$("$SCRUT" test kill.md 2>&1)"; rc=$?; sleep 0.3
log="$(tr '\n' ' ' < "$LOG")"
echo "exit=$rc executed: $log"; echo "$out" | grep -a "Result\|actual"
if ! grep -q k3 "$LOG"; then echo "VIOLATED: test #3 was reported as failed (exit code -255) but never executed"; exit 1; fi
exit 0
