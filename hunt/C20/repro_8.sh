#!/usr/bin/env bash
# C20 violation 8: a test case with `timeout: 1s` that closes its stdout and
# stderr and then keeps running for 3s is not timed out: it is reported as
# succeeded and scrut exits 0. Demanded: exit 50 (a test case timed out).
. "$(dirname "$0")/_lib.sh"
printf '```scrut {timeout: 1s}\n$ echo k1 >> %s; exec >&- 2>&-; sleep 3; echo late >> %s\n```\n\n```scrut\n$ echo k2 >> %s\n```\n' "$LOG" "$LOG" "$LOG" > t.md
: > "$LOG"; start=$(date +%s)
out="$("$SCRUT" test t.md 2>&1)"; rc=$?
echo "exit=$rc after $(( $(date +%s) - start ))s, executed: $(tr '\n' ' ' < "$LOG")"
echo "$out" | grep -a Result
# control: without closing the streams the timeout is detected
printf '```scrut {timeout: 1s}\n$ sleep 3\n```\n' > c.md; "$SCRUT" test c.md >/dev/null 2>&1; echo "control (streams open): exit=$?"
if [ "$rc" != 50 ]; then echo "VIOLATED: exit=$rc, demanded 50"; exit 1; fi
exit 0
