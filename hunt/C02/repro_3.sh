#!/bin/bash
# (borderline, see findings.txt) unified diff: unmatched expectations that are
# separated by silently skipped optional expectations are put into ONE hunk as if
# they were adjacent lines of the document. exit 0 = holds, non-zero = violated.
. "$(dirname "$0")/repro_common.sh"
rc=0
cat > a.md <<'DOC'
# T

## skipped optional between unmatched

```scrut
$ printf ''
first
opt1 (?)
second
```
DOC
"$SCRUT" test -r diff a.md > a.patch
echo "--- unified diff"; cat a.patch
# `first` is line 7, `opt1 (?)` line 8, `second` line 9: a hunk `-7,2` claims
# that lines 7 and 8 are `first` and `second`
if grep -q '^@@ -7,2 ' a.patch; then echo "VIOLATION: hunk -7,2 removes 'first','second' but line 8 of the document is 'opt1 (?)'"; rc=1; fi
if command -v patch >/dev/null; then
    cp a.md ap.md
    if patch -s ap.md a.patch >/dev/null 2>&1 && "$SCRUT" test ap.md >/dev/null 2>&1; then echo "patch applies and document passes"; else echo "VIOLATION: scrut's own unified diff does not apply / patched document fails"; rc=1; fi
fi
exit $rc
