# sourced by repro_<n>.sh: sets $SCRUT (builds it when missing) and $WORK
CHECKOUT="${1:-/tmp/h_C02}"
SCRUT="$CHECKOUT/target/debug/scrut"
if [ ! -x "$SCRUT" ]; then
    (cd "$CHECKOUT" && cargo build --offline --bin scrut >/dev/null 2>&1) || { echo "build failed" >&2; exit 99; }
fi
WORK="$(mktemp -d)"
trap 'rm -rf "$WORK"' EXIT
cd "$WORK" || exit 99
