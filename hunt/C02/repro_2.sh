#!/bin/bash
# C02 / unified diff: a last output line WITHOUT final newline is rendered as if
# it had one -> the hunk is the no-op `-bar` / `+bar`, the missing newline (the
# only difference) is lost. exit 0 = holds, non-zero = violated.
. "$(dirname "$0")/repro_common.sh"
rc=0
cat > a.md <<'DOC'
# T

## no trailing newline vs equal

```scrut
$ printf 'foo\nbar'
foo
bar
```
DOC
"$SCRUT" test -r diff a.md > a.patch
echo "--- unified diff"; cat a.patch
minus="$(grep '^-[^-]' a.patch | cut -c2-)"
plus="$(grep '^+[^+]' a.patch | cut -c2-)"
if [ "$minus" = "$plus" ]; then echo "VIOLATION: removed and added lines are identical ('$minus'): the unterminated line is described as a terminated one"; rc=1; fi
if ! grep -q '^+bar (no-eol)$' a.patch; then echo "VIOLATION: no '+bar (no-eol)' line (pretty renderer and update both write 'bar (no-eol)')"; rc=1; fi
if command -v patch >/dev/null; then
    cp a.md ap.md; patch -s ap.md a.patch 2>/dev/null
    if "$SCRUT" test ap.md >/dev/null 2>&1; then echo "patched document passes"; else echo "VIOLATION: document patched with scrut's own unified diff still fails"; rc=1; fi
fi
echo "--- for comparison, pretty renderer:"; "$SCRUT" test a.md | grep '|'
exit $rc
