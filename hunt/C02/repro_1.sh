#!/bin/bash
# C02 / unified diff: output lines that come BEFORE the first expectation that
# is matched/unmatched ("leading" UnexpectedLines) are placed one line too late.
# exit 0 = property holds (the unified diff describes the output in output
# order), non-zero = violated.
. "$(dirname "$0")/repro_common.sh"
rc=0

# --- case A: one leading unexpected line -----------------------------------
cat > a.md <<'DOC'
# T

## leading unexpected

```scrut
$ printf 'bla\nfoo\n'
foo
```
DOC
"$SCRUT" test -r diff a.md > a.patch
echo "--- unified diff (case A)"; cat a.patch
# line 6 is the `$` line, line 7 is `foo`: `bla` precedes `foo` in the output,
# so it has to be added after line 6 (`@@ -6,0 ...`), in front of `foo`
if grep -q '^@@ -6,0 ' a.patch; then echo "A: hunk position ok"; else echo "A: VIOLATION: hunk is not placed after line 6"; rc=1; fi
if command -v patch >/dev/null; then
    cp a.md ap.md; patch -s ap.md a.patch
    echo "--- patched document (case A)"; cat ap.md
    if "$SCRUT" test ap.md >/dev/null 2>&1; then echo "A: patched document passes"; else echo "A: VIOLATION: document patched with scrut's own unified diff still fails (output order bla,foo was written as foo,bla)"; rc=1; fi
fi

# --- case B: no expectations at all -----------------------------------------
cat > b.md <<'DOC'
# T

## no expectations

```scrut
$ printf 'c\nab\n'
```
DOC
"$SCRUT" test -r diff b.md > b.patch
echo "--- unified diff (case B)"; cat b.patch
if grep -q '^@@ -6,0 ' b.patch; then echo "B: hunk position ok"; else echo "B: VIOLATION: hunk is not placed after line 6 (lands behind the closing fence)"; rc=1; fi
if command -v patch >/dev/null; then
    cp b.md bp.md; patch -s bp.md b.patch
    echo "--- patched document (case B)"; cat bp.md
    if "$SCRUT" test bp.md >/dev/null 2>&1; then echo "B: patched document passes"; else echo "B: VIOLATION: patched document still fails"; rc=1; fi
fi
exit $rc
