# Sourced by repro_<n>.sh. Usage of those: repro_<n>.sh [checkout-path]   (default /tmp/h_C06)
# exit 0 = property HOLDS for the input, 1 = VIOLATED, 99 = could not build/run.
CHECKOUT="${1:-/tmp/h_C06}"
SCRUT="$CHECKOUT/target/debug/scrut"
if [ ! -x "$SCRUT" ]; then
  (cd "$CHECKOUT" && cargo build --offline --bin scrut >&2) || { echo "build failed" >&2; exit 99; }
fi
WORK="$(mktemp -d)" || exit 99
trap 'rm -rf "$WORK"' EXIT
VIOLATED=0
# run_doc <file>: runs `scrut test -r json` in $WORK; sets OUT (stdout), ERR (stderr), RC
run_doc() {
  OUT="$(cd "$WORK" && "$SCRUT" test -r json "$1" 2>"$WORK/stderr.txt")"; RC=$?
  ERR="$(cat "$WORK/stderr.txt")"
}
# parse_failed: true if scrut reported a parse error (which the property allows)
parse_failed() { [ "$RC" = 1 ] && printf '%s' "$ERR" | grep -q "Failed to parse"; }
# count_tests: number of test results in JSON output
count_tests() { printf '%s' "$OUT" | python3 -c 'import json,sys; print(len(json.load(sys.stdin)))'; }
# field <index> <name>: testcase field of the <index>th result (only present for failed tests)
field() { printf '%s' "$OUT" | python3 -c 'import json,sys; d=json.load(sys.stdin); print(json.dumps(d[int(sys.argv[1])]["testcase"][sys.argv[2]]))' "$1" "$2"; }
report() { # report <variant> <ok|bad> <message>
  if [ "$2" = ok ]; then echo "HOLDS    [$1] $3"; else echo "VIOLATED [$1] $3"; VIOLATED=1; fi
}
