#!/bin/bash
# C06 finding 8: CRLF document truncated between CR and LF: the CR stays in the shell expression.
. "$(dirname "$0")/repro_lib.sh"
printf 'T\r\n\r\n```scrut\r\n$ echo a\r' > "$WORK/t.md"
run_doc t.md
if parse_failed; then report "CRLF truncated" ok "rejected with a parse error"
else got="$(field 0 shell_expression)"
  if [ "$got" = '"echo a"' ]; then report "CRLF truncated" ok "shell expression $got"; else report "CRLF truncated" bad "shell expression is $got, written: \"echo a\""; fi
fi
exit $VIOLATED
