#!/bin/bash
# C06 finding 1: inline per-test configuration is silently dropped when the fence line
# does not END with '}' (trailing whitespace, trailing text, missing closing brace).
. "$(dirname "$0")/repro_lib.sh"
i=0
for fence in '```scrut {environment: {FOO: bar}} ' '```scrut {environment: {FOO: bar}} extra'; do
  i=$((i+1))
  printf 'T\n\n%s\n$ echo "[$FOO]"\n[bar]\n```\n' "$fence" > "$WORK/t$i.md"
  run_doc "t$i.md"
  if parse_failed; then report "variant $i: $fence" ok "rejected with a parse error"
  elif [ "$RC" = 0 ]; then report "variant $i: $fence" ok "config applied (FOO=bar)"
  else report "variant $i: $fence" bad "parsed without error but config {environment: {FOO: bar}} was dropped; FOO in test config: $(field 0 config | python3 -c 'import json,sys; print(json.load(sys.stdin)["environment"].get("FOO"))')"
  fi
done
# variant 3: closing brace missing (malformed): must be applied or rejected, not ignored
fence='```scrut {output_stream: stderr'
printf 'T\n\n%s\n$ echo err >&2\nerr\n```\n' "$fence" > "$WORK/t3.md"
run_doc t3.md
if parse_failed; then report "variant 3: $fence" ok "rejected with a parse error"
elif [ "$RC" = 0 ]; then report "variant 3: $fence" ok "config applied (stderr validated)"
else report "variant 3: $fence" bad "parsed without error but the config was ignored; output_stream in test config: $(field 0 config | python3 -c 'import json,sys; print(json.load(sys.stdin)["output_stream"])')"
fi
exit $VIOLATED
