#!/bin/bash
# C06 finding 5: the title is not the nearest preceding paragraph when that paragraph starts with a
# non-letter (digit, backtick, '*', emoji, ...): an older paragraph is used instead; and a paragraph
# is glued to the paragraph before an intervening foreign code block.
. "$(dirname "$0")/repro_lib.sh"
check() { # check <file> <expected title>
  run_doc "$1"
  if parse_failed; then report "$1" ok "rejected with a parse error"; return; fi
  got="$(field 0 title)"
  if [ "$got" = "\"$2\"" ]; then report "$1" ok "title $got"; else report "$1" bad "title is $got, nearest preceding paragraph is \"$2\""; fi
}
printf 'First para\n\n42 is the answer\n\n```scrut\n$ echo x\ny\n```\n' > "$WORK/digit.md"
printf 'Old para\n\n`foo` does things\n\n```scrut\n$ echo x\ny\n```\n' > "$WORK/inline_code.md"
printf 'Para one\n```text\nx\n```\nPara two\n\n```scrut\n$ echo x\ny\n```\n' > "$WORK/glued.md"
check digit.md "42 is the answer"
check inline_code.md '`foo` does things'
check glued.md "Para two"
exit $VIOLATED
