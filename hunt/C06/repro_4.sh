#!/bin/bash
# C06 finding 4: any line that merely STARTS with the opening backticks closes a block, even if it
# carries an info string (which is content in CommonMark). (a) truncates a test, (b) a foreign
# block creates a test.
. "$(dirname "$0")/repro_lib.sh"
# (a) one scrut block, three expectation lines; passes if parsed as written
cat > "$WORK/a.md" <<'DOC'
T

```scrut
$ printf '```text\nhi\n```scrut\n'
```text
hi
```scrut
```
DOC
run_doc a.md
if parse_failed; then report "a: truncation" ok "rejected with a parse error"
elif [ "$RC" = 0 ]; then report "a: truncation" ok "test has all three expectation lines and passes"
else report "a: truncation" bad "no parse error; expectations parsed: $(field 0 expectations) (should be the 3 lines written)"
fi
# (b) a single ```text block (closed by the bare ``` at the end) -> no test at all
cat > "$WORK/b.md" <<'DOC'
T

```text
```scrut
$ echo inner-a
```scrut
$ echo inner-b
```
DOC
run_doc b.md
if parse_failed; then report "b: foreign block" ok "rejected with a parse error"
elif [ "$(count_tests)" = 0 ]; then report "b: foreign block" ok "0 tests"
else report "b: foreign block" bad "$(count_tests) test(s) created out of the content of a \`\`\`text block: $(field 0 shell_expression 2>/dev/null)"
fi
exit $VIOLATED
