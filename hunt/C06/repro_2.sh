#!/bin/bash
# C06 finding 2: fenced blocks whose info string names the language `scrut` in a way CommonMark
# accepts (space before the language; further words after the language) are silently dropped.
. "$(dirname "$0")/repro_lib.sh"
i=0
for fence in '``` scrut' '```scrut title=x'; do
  i=$((i+1))
  printf 'T\n\n%s\n$ echo hi\nhi\n```\n' "$fence" > "$WORK/t$i.md"
  run_doc "t$i.md"
  if parse_failed; then report "$fence" ok "rejected with a parse error"
  elif [ "$(count_tests)" = 1 ]; then report "$fence" ok "1 test"
  else report "$fence" bad "scrut exit $RC, $(count_tests) tests: the block with '\$ echo hi' was silently dropped"
  fi
done
exit $VIOLATED
