#!/bin/bash
# C06 finding 6: after a terminated front-matter a second '---' (thematic break) starts ANOTHER
# front-matter; a heading between two such breaks is swallowed as YAML (a '# ...' line is a YAML
# comment), so the test loses its title, without any error.
. "$(dirname "$0")/repro_lib.sh"
printf -- '---\ntotal_timeout: 3m\n---\n\n---\n\n# Title\n\n---\n\n```scrut\n$ echo x\ny\n```\n' > "$WORK/t.md"
run_doc t.md
if parse_failed; then report "second ---" ok "rejected with a parse error"
else got="$(field 0 title)"
  if [ "$got" = '"Title"' ]; then report "second ---" ok "title $got"; else report "second ---" bad "title is $got, the nearest preceding heading is \"Title\""; fi
fi
exit $VIOLATED
