#!/bin/bash
# C06 finding 3: a scrut block whose fences are indented (1-3 spaces, or inside a list item /
# block quote) is silently dropped, its lines become prose.
. "$(dirname "$0")/repro_lib.sh"
printf '1. Step\n\n   ```scrut\n   $ echo hi\n   hi\n   ```\n\nAfter\n\n```scrut\n$ echo b\nb\n```\n' > "$WORK/list.md"
printf 'T\n\n ```scrut\n$ echo hi\nhi\n ```\n\nAfter\n\n```scrut\n$ echo b\nb\n```\n' > "$WORK/one_space.md"
for f in list.md one_space.md; do
  run_doc "$f"
  if parse_failed; then report "$f" ok "rejected with a parse error"
  elif [ "$(count_tests)" = 2 ]; then report "$f" ok "2 tests"
  else report "$f" bad "scrut exit $RC, $(count_tests) test(s) instead of 2: the indented block was silently dropped"
  fi
done
exit $VIOLATED
