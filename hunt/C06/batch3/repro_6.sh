#!/bin/bash
# C06 (low confidence) 6: a document with CR-only line endings yields zero tests and no error
. "$(dirname "$(readlink -f "$0")")/common.inc"
printf '# T\r\r```scrut\r$ echo a\rWRONG\r```\r' > doc.md
run_doc doc.md
python3 - <<'PY'
import json,sys
o=json.load(open('out.json'))
ok = len(o)==1
print("HOLDS" if ok else "VIOLATED: %d testcases, no error"%len(o))
sys.exit(0 if ok else 1)
PY
