#!/bin/bash
# C06 violation 2: malformed inline configuration (missing closing brace / text behind the brace)
# is silently dropped: the test is produced WITHOUT the written configuration and no error
. "$(dirname "$(readlink -f "$0")")/common.inc"
fail=0
i=0
for open in '```scrut {timeout: 3s' '```scrut {timeout: 3s} trailing words'; do
  i=$((i+1))
  printf '# T\n\n%s\n$ echo a\nWRONG\n```\n' "$open" > doc$i.md
  "$BIN" test -r json doc$i.md >out.json 2>err.txt; rc=$?
  if [ $rc -ne 0 ] && grep -q "Failed to parse" err.txt; then echo "case $i HOLDS (error)"; continue; fi
  python3 - "$i" <<'PY' || fail=1
import json,sys
o=json.load(open('out.json'))
ok = len(o)==1 and o[0]['testcase'].get('config',{}).get('timeout')=='3s'
print("case %s %s"%(sys.argv[1], "HOLDS" if ok else "VIOLATED: test produced without the written inline config, no error: config=%r"%(o[0]['testcase'].get('config') if o else None,)))
sys.exit(0 if ok else 1)
PY
done
exit $fail
