#!/bin/bash
# C06 violation 4: title is not the nearest preceding heading/paragraph when a heading touches
# another heading or a paragraph line (they are merged into one multi-line title)
. "$(dirname "$(readlink -f "$0")")/common.inc"
fail=0
check() { # file expected-title
  "$BIN" test -r json "$1" >out.json 2>err.txt; rc=$?
  if [ $rc -ne 0 ] && grep -q "Failed to parse" err.txt; then echo "$1 HOLDS (error)"; return; fi
  python3 - "$1" "$2" <<'PY' || fail=1
import json,sys
o=json.load(open('out.json'))
t=o[0]['testcase']['title'] if o else None
ok = t==sys.argv[2]
print("%s %s"%(sys.argv[1], "HOLDS" if ok else "VIOLATED: title=%r, nearest preceding heading is %r"%(t,sys.argv[2])))
sys.exit(0 if ok else 1)
PY
}
printf '# H1\n## H2\n```scrut\n$ echo a\nWRONG\n```\n' > h1h2.md
check h1h2.md "H2"
printf 'Intro paragraph\n# Head\n```scrut\n$ echo a\nWRONG\n```\n' > parahead.md
check parahead.md "Head"
printf '# Head\nParagraph below\n\n```scrut\n$ echo a\nWRONG\n```\n' > headpara.md
check headpara.md "Paragraph below"
exit $fail
