#!/bin/bash
# C06 violation 3: an exit code line written in front of the `$` line is silently discarded
. "$(dirname "$(readlink -f "$0")")/common.inc"
printf '# T\n\n```scrut\n[3]\n$ echo a; exit 3\nWRONG\n```\n' > doc.md
run_doc doc.md
python3 - <<'PY'
import json,sys
o=json.load(open('out.json'))
ok = len(o)==1 and o[0]['testcase']['exit_code']==3
print("HOLDS" if ok else "VIOLATED: written exit code [3] silently lost: exit_code=%r"%(o[0]['testcase']['exit_code'] if o else None,))
sys.exit(0 if ok else 1)
PY
