#!/bin/bash
# C06 (reading-dependent) 5: the second scrut block below a heading gets an empty title instead of
# the nearest preceding heading
. "$(dirname "$(readlink -f "$0")")/common.inc"
printf '# Head\n\n```scrut\n$ echo a\nWRONG\n```\n\n```scrut\n$ echo b\nWRONG\n```\n' > doc.md
run_doc doc.md
python3 - <<'PY'
import json,sys
o=json.load(open('out.json'))
titles=[x['testcase']['title'] for x in o]
ok = titles==['Head','Head']
print("HOLDS" if ok else "VIOLATED: titles=%r, nearest preceding heading of both blocks is 'Head'"%(titles,))
sys.exit(0 if ok else 1)
PY
