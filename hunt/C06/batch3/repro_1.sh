#!/bin/bash
# C06 violation 1: a fenced block whose info string is "scrut <more words>" is silently skipped
. "$(dirname "$(readlink -f "$0")")/common.inc"
printf '# T\n\n```scrut some title\n$ echo a\nWRONG\n```\n' > doc.md
run_doc doc.md
python3 - <<'PY'
import json,sys
o=json.load(open('out.json'))
# the only test must fail (expectation WRONG), so it must show up in the json of failed outcomes
ok = len(o)==1 and o[0]['testcase']['shell_expression']=='echo a' and o[0]['testcase']['line_number']==4
print("HOLDS" if ok else "VIOLATED: no testcase produced and no error; outcomes=%r"%(o,))
sys.exit(0 if ok else 1)
PY
