#!/bin/bash
# C06 finding 7: a continuation line that is just '>' (empty continuation, trailing blank stripped by
# an editor) silently ends the multi-line command; the rest of the command becomes expectations.
. "$(dirname "$0")/repro_lib.sh"
printf 'T\n\n```scrut\n$ cat <<EOF\n> a\n>\n> b\n> EOF\na\n\nb\n```\n' > "$WORK/t.md"
run_doc t.md
if parse_failed; then report "bare >" ok "rejected with a parse error"
elif [ "$RC" = 0 ]; then report "bare >" ok "heredoc command kept whole, test passes"
else report "bare >" bad "shell expression parsed as $(field 0 shell_expression), expectations $(field 0 expectations)"
fi
exit $VIOLATED
