#!/bin/bash
# C01 / regex rule: the expression is pasted into ^(?:...)$ unchecked; an unbalanced ")" leaves the first alternative unanchored at the end
. "$(dirname "$0")/lib_repro.sh"
cat > "$WORK/t.md" <<'DOC'
# T

```scrut
$ echo "a and then anything at all"
a)|(?:b (re)
```
DOC
run_doc t.md; rc=$?
verdict $rc
