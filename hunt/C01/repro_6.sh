#!/bin/bash
# C01 / regex rule: "[a]]" (class [a] followed by literal "]") is rewritten to the class [a\]]: "xa" passes, "xa]" would fail
. "$(dirname "$0")/lib_repro.sh"
cat > "$WORK/t.md" <<'DOC'
# T

```scrut
$ echo xa
x[a]] (re)
```
DOC
run_doc t.md; rc=$?
verdict $rc
