#!/bin/bash
# C01 / glob rule compares lossy-decoded text: a literal U+FFFD in the expectation accepts any invalid byte
. "$(dirname "$0")/lib_repro.sh"
cat > "$WORK/t.md" <<'DOC'
# T

```scrut
$ printf 'a\377b\n'
a�b (glob)
```
DOC
run_doc t.md; rc=$?
verdict $rc
