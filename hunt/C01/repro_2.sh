#!/bin/bash
# C01 / regex rule: the literal text <<<<3>>>> in a regex expectation is turned into the quantifier {3}: "aaa" passes
. "$(dirname "$0")/lib_repro.sh"
cat > "$WORK/t.md" <<'DOC'
# T

```scrut
$ echo aaa
a<<<<3>>>> (re)
```
DOC
run_doc t.md; rc=$?
verdict $rc
