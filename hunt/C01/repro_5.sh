#!/bin/bash
# C01 / escaped rule: "a (no-eol) (esc)" (cram: line WITHOUT newline) also accepts the line WITH newline
. "$(dirname "$0")/lib_repro.sh"
cat > "$WORK/t.md" <<'DOC'
# T

```scrut
$ echo a
a (no-eol) (esc)
```
DOC
run_doc t.md; rc=$?
verdict $rc
