#!/bin/bash
# C01 / strip_ansi_escaping removes far more than ANSI escape sequences before the diff:
# whole ordinary output lines (after an unterminated OSC/DCS/APC introducer), tabs and
# other control characters, and invalid UTF-8 bytes. Tests pass on lines no expectation describes.
. "$(dirname "$0")/lib_repro.sh"
cat > "$WORK/t.md" <<'DOC'
# lines after an unterminated OSC are dropped

```scrut {strip_ansi_escaping: true}
$ printf 'a\n\033]b\nc\nd\n'
a
```

# no expectation at all, output has two ordinary lines

```scrut {strip_ansi_escaping: true}
$ printf '\033_'; echo "ERROR: everything failed"; echo "more"
```

# a tab and a BEL are not ANSI escape sequences

```scrut {strip_ansi_escaping: true}
$ printf 'foo\tbar\007\n'
foobar
```

# an invalid UTF-8 byte is not an ANSI escape sequence

```scrut {strip_ansi_escaping: true}
$ printf 'a\377b\n'
ab
```
DOC
run_doc t.md; rc=$?
verdict $rc
