# sourced by repro_<n>.sh: locates (or builds) the scrut binary of the checkout
CHECKOUT="${1:-/tmp/h_C01}"
SCRUT=""
for c in "$CHECKOUT/target/debug/scrut" "$CHECKOUT/target/release/scrut"; do
  [ -x "$c" ] && SCRUT="$c" && break
done
if [ -z "$SCRUT" ]; then
  (cd "$CHECKOUT" && cargo build --offline --bin scrut >/dev/null 2>&1) || { echo "cannot build scrut in $CHECKOUT" >&2; exit 99; }
  SCRUT="$CHECKOUT/target/debug/scrut"
fi
WORK="$(mktemp -d "${TMPDIR:-/tmp}/c01repro.XXXXXX")"
trap 'rm -rf "$WORK"' EXIT
# run_doc <file>: prints scrut's report, returns scrut's exit code
run_doc() { (cd "$WORK" && "$SCRUT" test --no-color "$1" 2>&1); }
# verdict <rc of scrut>: the documents used here all describe output that is NOT
# in the language of the expectations, so scrut must fail (rc 50). rc 0 = false pass.
verdict() {
  if [ "$1" -eq 0 ]; then echo "VIOLATED: scrut passed output that the expectations do not describe"; exit 1
  elif [ "$1" -eq 50 ]; then echo "HOLDS: scrut reported the test as failed"; exit 0
  else echo "UNEXPECTED scrut exit code $1"; exit 2; fi
}
