#!/bin/bash
# C07 repro 3: exit-code line whose number overflows i32 silently becomes an output expectation
# usage: repro_3.sh [checkout-path]   (default /tmp/h_C07)
# exit 0 = property holds for this input, non-zero = violated
CO="${1:-/tmp/h_C07}"
BIN="$CO/target/debug/scrut"
if [ ! -x "$BIN" ]; then (cd "$CO" && cargo build --offline --bin scrut >/dev/null 2>&1) || { echo "build failed"; exit 2; }; fi
W=$(mktemp -d); trap 'rm -rf "$W"' EXIT
printf '%b' 'T\n  $ echo "[99999999999]"\n  [99999999999]\n' > "$W/doc.t"
OUT=$("$BIN" test "$W/doc.t" 2>&1); RC=$?
echo "--- document:"; cat "$W/doc.t"; echo "--- scrut test rc=$RC"; echo "$OUT" | grep -v '^ \+[0-9]\+: \|^ \+at ' | head -30
if [ $RC -eq 1 ] && echo "$OUT" | grep -q "Failed to parse"; then echo "HOLDS: parse error"; exit 0; fi
if [ $RC -eq 0 ]; then echo "VIOLATED: the exit-code line [99999999999] was silently turned into an output expectation (test passes with exit 0 and output \"[99999999999]\")"; exit 1; fi
echo "UNEXPECTED rc=$RC"; exit 3
