#!/bin/bash
# C07 repro 2: expectation line before the first $ of a block is attached to the following command
# usage: repro_2.sh [checkout-path]   (default /tmp/h_C07)
# exit 0 = property holds for this input, non-zero = violated
CO="${1:-/tmp/h_C07}"
BIN="$CO/target/debug/scrut"
if [ ! -x "$BIN" ]; then (cd "$CO" && cargo build --offline --bin scrut >/dev/null 2>&1) || { echo "build failed"; exit 2; }; fi
W=$(mktemp -d); trap 'rm -rf "$W"' EXIT
printf '%b' 'title\n  foo\n  $ echo hi\n  hi\n' > "$W/doc.t"
OUT=$("$BIN" test "$W/doc.t" 2>&1); RC=$?
echo "--- document:"; cat "$W/doc.t"; echo "--- scrut test rc=$RC"; echo "$OUT" | grep -v '^ \+[0-9]\+: \|^ \+at ' | head -30
if [ $RC -eq 1 ] && echo "$OUT" | grep -q "Failed to parse"; then echo "HOLDS: parse error"; exit 0; fi
if [ $RC -eq 0 ]; then echo "HOLDS: test for \"echo hi\" expects exactly [hi] and passes"; exit 0; fi
echo "VIOLATED: the orphan expectation \"foo\" was attached to \"echo hi\" (written expectations are just [hi])"; exit 1
