#!/bin/bash
# C15 violation 4: Cram document in which an earlier test case makes the divider lines of the
# bash-script executor get lost or look different; a later test case ends with the skip code.
# Expected: document skipped, other document unaffected. Actual: run aborted with an error (rc=1).
. "$(dirname "$0")/common.sh"
fail=0
for first in 'exec >/dev/null' 'set -x' 'set -v' 'enable -n echo'; do
    printf 'First\n  $ %s\n\nSkip\n  $ (exit 80)\n  [80]\n' "$first" > doc.t
    run_json doc.t ok.md
    expect_doc_skipped "cram: '$first' then (exit 80)" 2 || fail=1
done
exit $fail
