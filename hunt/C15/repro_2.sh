#!/bin/bash
# C15 violation 2: the shell ends (exit 80) before scrut has written the whole script into its
# STDIN (script larger than the pipe buffer) -> reported as "timeout"/failed instead of skipped.
. "$(dirname "$0")/common.sh"
fail=0
# (a) Cram: skip at the top of a document with 150 small test cases
{ printf 'Skip unless tool\n  $ exit 80\n\n'
  for i in $(seq 1 150); do printf 'Test %d\n  $ echo "this is test number %d with some padding text"\n  this is test number %d with some padding text\n\n' $i $i $i; done; } > big.t
run_json big.t ok.md
expect_doc_skipped "cram: exit 80 at top of 151-testcase document" 151 || fail=1
# (b) Markdown: one test case that exits 80 in its first line and has 1500 more lines
{ printf '# T\n\n```scrut\n$ command -v nonexistent-tool-xyz >/dev/null || exit 80\n'
  for i in $(seq 1 1500); do printf '> echo "this is line number %d with some padding text in it"\n' $i; done
  printf '```\n\n```scrut\n$ echo b\nb\n```\n'; } > big.md
run_json big.md ok.md
expect_doc_skipped "markdown: exit 80 in first line of a 90KB test case" 2 || fail=1
exit $fail
