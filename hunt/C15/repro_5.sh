#!/bin/bash
# C15 violation 5 (Markdown): the test case's shell exits with 80 at once, but a background
# child keeps STDOUT/STDERR open beyond the test case's timeout.
# Expected: skipped. Actual: reported as timeout (failed), rc=50.
. "$(dirname "$0")/common.sh"
cat > doc.md <<'EOS'
# T

```scrut {timeout: 1s}
$ sleep 3 & exit 80
```

```scrut
$ echo after
after
```
EOS
run_json doc.md ok.md
expect_doc_skipped "markdown: 'sleep 3 & exit 80' with timeout 1s" 2
