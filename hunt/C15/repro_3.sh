#!/bin/bash
# C15 violation 3: Cram document, a test case ends with the skip code ((exit 80)), a later one
# kills the shell with a signal. Expected: document skipped. Actual: whole run aborted (rc=1),
# no outcome rendered at all, the other document is not reported either.
. "$(dirname "$0")/common.sh"
cat > doc.t <<'EOS'
Skip
  $ (exit 80)
  [80]

Die
  $ kill -9 $$
EOS
run_json doc.t ok.md
expect_doc_skipped "cram: (exit 80) then kill -9 \$\$" 2
