# sourced by the repro scripts: CHECKOUT=$1 (default /tmp/h_C15)
CHECKOUT="${1:-/tmp/h_C15}"
SCRUT="$CHECKOUT/target/debug/scrut"
if [ ! -x "$SCRUT" ]; then
    (cd "$CHECKOUT" && cargo build --offline --bin scrut >/dev/null 2>&1) || { echo "cannot build scrut"; exit 2; }
fi
WORK="$(mktemp -d)"
trap 'rm -rf "$WORK"' EXIT
cd "$WORK" || exit 2
export RUST_BACKTRACE=0

cat > ok.md <<'EOS'
# OK

```scrut
$ echo ok
ok
```
EOS

# run_json FILES... : sets RC, JSON
run_json() {
    JSON="$("$SCRUT" test --no-color -r json "$@" 2>err.txt)"
    RC=$?
}
count_kind() { printf '%s' "$JSON" | grep -o "\"kind\":\"$1\"" | wc -l | tr -d ' '; }
# expect_all_skipped NAME N_TESTCASES_IN_SKIPPED_DOC  (ok.md is run alongside and must be reported as success)
expect_doc_skipped() {
    local name=$1 n=$2
    local skipped success
    skipped=$(count_kind skipped); success=$(count_kind success)
    if [ "$RC" -eq 0 ] && [ "$skipped" -eq "$n" ] && [ "$success" -eq 1 ]; then
        echo "HOLDS  [$name] rc=$RC skipped=$skipped success(ok.md)=$success"
        return 0
    fi
    echo "VIOLATED [$name] rc=$RC skipped=$skipped (want $n) success(ok.md)=$success (want 1); kinds: $(printf '%s' "$JSON" | grep -o '"kind":"[a-z_]*"' | sort | uniq -c | tr -s ' \n' ' ')"
    [ -s err.txt ] && head -3 err.txt
    return 1
}
