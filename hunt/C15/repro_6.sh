#!/bin/bash
# C15 second sentence: no test case exits with the skip code and nothing runs longer than a
# fraction of a second (timeout is the default 900s), yet 150 test cases are reported as skipped
# (and the first one as "timeout"). Same cause as repro_2 (early `exit` + script > pipe buffer).
. "$(dirname "$0")/common.sh"
{ printf 'Bail out\n  $ exit 1\n  [1]\n\n'
  for i in $(seq 1 150); do printf 'Test %d\n  $ echo "this is test number %d with some padding text"\n  this is test number %d with some padding text\n\n' $i $i $i; done; } > big.t
start=$(date +%s)
run_json big.t
elapsed=$(( $(date +%s) - start ))
skipped=$(count_kind skipped)
if [ "$skipped" -eq 0 ]; then echo "HOLDS  no test case reported as skipped (rc=$RC)"; exit 0; fi
echo "VIOLATED: $skipped test cases reported as skipped, timeout reported: $(count_kind timeout), run took ${elapsed}s, rc=$RC"
exit 1
