#!/bin/bash
# C15 violation 1: Cram document, a test case ends with the skip code without ending the
# script ((exit 80)), a later test case runs into the per-document timeout.
# Expected: all test cases skipped, run succeeds. Actual: first reported as timeout (failed), rc=50.
. "$(dirname "$0")/common.sh"
cat > doc.t <<'EOS'
Skip
  $ (exit 80)
  [80]

Slow
  $ sleep 5
EOS
run_json --timeout-seconds 1 doc.t ok.md
expect_doc_skipped "cram: (exit 80) then timeout" 2
