#!/bin/bash
# exits 0 if the property holds (config with a 1025 character environment
# variable name survives create-style rendering + parsing), non-zero otherwise
CHECKOUT="${1:-/tmp/h_C17}"
HERE="$(cd "$(dirname "$0")" && pwd)"
mkdir -p "$CHECKOUT/tests"
cp "$HERE/repro_1.rs" "$CHECKOUT/tests/c17_repro_1.rs"
(cd "$CHECKOUT" && cargo test --offline --test c17_repro_1 >"$HERE/repro_1.log" 2>&1)
rc=$?
grep -E "^test |panicked|parse:|test result" "$HERE/repro_1.log"
rm -f "$CHECKOUT/tests/c17_repro_1.rs"
rmdir "$CHECKOUT/tests" 2>/dev/null
exit $rc
