// C17 repro 1: an environment variable whose (identifier) name is longer than
// 1024 characters cannot be read back from the one-line `{...}` form.
use std::sync::Arc;

use scrut::config::TestCaseConfig;
use scrut::escaping::Escaper;
use scrut::expectation::ExpectationMaker;
use scrut::generators::generator::TestCaseGenerator;
use scrut::generators::markdown::MarkdownTestCaseGenerator;
use scrut::outcome::Outcome;
use scrut::parsers::markdown::MarkdownParser;
use scrut::parsers::parser::Parser;
use scrut::parsers::parser::ParserType;
use scrut::rules::registry::RuleRegistry;
use scrut::testcase::TestCase;

fn roundtrip(name_len: usize) -> Result<(), String> {
    let mut config = TestCaseConfig::default_markdown();
    config.environment.insert("A".repeat(name_len), "v".to_string());
    let outcome = Outcome {
        location: None,
        output: ("out\n", "").into(),
        testcase: TestCase {
            title: "A title".into(),
            shell_expression: "echo out".into(),
            expectations: vec![],
            exit_code: None,
            line_number: 0,
            config: config.clone(),
        },
        format: ParserType::Markdown,
        escaping: Escaper::default(),
        result: Ok(()),
    };
    let doc = MarkdownTestCaseGenerator::default()
        .generate_testcases(&[&outcome])
        .map_err(|e| format!("generate: {e:#}"))?;
    let parser = MarkdownParser::new(
        Arc::new(ExpectationMaker::new(RuleRegistry::default())),
        &["scrut"],
        None,
    );
    let (_, testcases) = parser.parse(&doc).map_err(|e| format!("parse: {e:#}"))?;
    if testcases.len() == 1 && testcases[0].config == config {
        Ok(())
    } else {
        Err("config differs".into())
    }
}

#[test]
fn env_name_1024_chars_round_trips() {
    roundtrip(1024).expect("1024 character name");
}

#[test]
fn env_name_1025_chars_round_trips() {
    roundtrip(1025).expect("1025 character name");
}
