#!/bin/bash
# exits 0 if the property holds: a test created with `-C --no-combine-output`
# (output_stream = stdout) reads back, under the same -C mode, with
# output_stream = stdout, i.e. `scrut test -C` of the created document passes.
CHECKOUT="${1:-/tmp/h_C17}"
SCRUT="$CHECKOUT/target/debug/scrut"
[ -x "$SCRUT" ] || (cd "$CHECKOUT" && cargo build --offline --bin scrut >/dev/null 2>&1)
W="$(mktemp -d)"
cd "$W" || exit 2
"$SCRUT" create -C --no-combine-output -o doc.md -- 'echo out; echo err >&2' >/dev/null 2>&1 || exit 2
echo "created fence line: $(grep '^```scrut' doc.md)"
# the configuration as read back under -C, as `scrut test` reports it
"$SCRUT" test -C --renderer json doc.md 2>/dev/null | grep -o '"output_stream":"[a-z]*"' | sort -u
"$SCRUT" test -C doc.md >out.txt 2>&1
rc=$?
tail -8 out.txt
cd / && rm -r "$W"
exit $rc
