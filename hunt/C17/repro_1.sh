#!/bin/bash
# C17 reproduction 1. Usage: repro_1.sh [checkout]   (default /tmp/h_C17)
# exit 0 = property holds for these inputs, non-zero = violated
CHECKOUT="${1:-/tmp/h_C17}"
HERE="$(cd "$(dirname "$0")" && pwd)"
mkdir -p "$CHECKOUT/tests"
cp "$HERE/c17_repro.rs" "$CHECKOUT/tests/c17_repro.rs" || exit 99
cd "$CHECKOUT" || exit 99
cargo test --offline --test c17_repro repro_1 -- --exact --nocapture 2>&1 | grep -v '^warning\|^ *|\|^ *= \|^ *--> \|^$'
status=${PIPESTATUS[0]}
rm -f "$CHECKOUT/tests/c17_repro.rs"
rmdir "$CHECKOUT/tests" 2>/dev/null
exit $status
