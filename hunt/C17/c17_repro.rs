// Reproductions for property C17 (configuration survives being written out and read back).
// Copy to <checkout>/tests/c17_repro.rs and run
//   cargo test --offline --test c17_repro repro_<n> -- --exact --nocapture
// Every test asserts that the property HOLDS, so a failing test == violation.

use std::collections::BTreeMap;
use std::path::PathBuf;
use std::sync::Arc;
use std::time::Duration;

use scrut::config::TestCaseConfig;
use scrut::config::TestCaseWait;
use scrut::escaping::Escaper;
use scrut::expectation::ExpectationMaker;
use scrut::generators::generator::TestCaseGenerator;
use scrut::generators::markdown::MarkdownTestCaseGenerator;
use scrut::outcome::Outcome;
use scrut::parsers::markdown::MarkdownParser;
use scrut::parsers::markdown::DEFAULT_MARKDOWN_LANGUAGES;
use scrut::parsers::parser::Parser;
use scrut::parsers::parser::ParserType;
use scrut::rules::registry::RuleRegistry;
use scrut::testcase::TestCase;

/// Renders the config the way `scrut create` / `scrut update --convert markdown`
/// do (MarkdownTestCaseGenerator -> "```scrut {...}") and reads the generated
/// document back with the MarkdownParser. Returns the problems found.
fn roundtrip(name: &str, cfg: &TestCaseConfig) -> Option<String> {
    let want = cfg.with_defaults_from(&TestCaseConfig::default_markdown());
    let outcome = Outcome {
        location: None,
        output: ("hello\n", "").into(),
        testcase: TestCase {
            title: "A title".into(),
            shell_expression: "echo hello".into(),
            expectations: vec![],
            exit_code: None,
            line_number: 1,
            config: want.clone(),
        },
        format: ParserType::Markdown,
        escaping: Escaper::default(),
        result: Ok(()),
    };
    let doc = MarkdownTestCaseGenerator::default()
        .generate_testcases(&[&outcome])
        .expect("generate document");
    let fence = doc
        .lines()
        .find(|l| l.starts_with("```"))
        .unwrap_or("")
        .to_string();
    let parser = MarkdownParser::new(
        Arc::new(ExpectationMaker::new(RuleRegistry::default())),
        DEFAULT_MARKDOWN_LANGUAGES,
        None,
    );
    // the fence content alone, the way parsers/markdown.rs hands it to serde_yaml
    let direct = serde_yaml::from_str::<TestCaseConfig>(&cfg.to_yaml_one_liner());
    match parser.parse(&doc) {
        Err(err) => Some(format!(
            "[{name}] generated document does not parse: {err:#}\n    fence line: {fence:?}\n    one-liner alone: {:?}",
            direct.map_err(|e| e.to_string())
        )),
        Ok((_, testcases)) if testcases.len() != 1 => Some(format!(
            "[{name}] generated document has {} testcases\n    fence line: {fence:?}",
            testcases.len()
        )),
        Ok((_, testcases)) if testcases[0].config != want => Some(format!(
            "[{name}] configuration changed\n    fence line: {fence:?}\n    want: {:?} / {:?}\n    got:  {:?} / {:?}",
            want.environment, want.wait, testcases[0].config.environment, testcases[0].config.wait
        )),
        Ok(_) => None,
    }
}

fn env(key: &str, value: &str) -> TestCaseConfig {
    TestCaseConfig {
        environment: BTreeMap::from([(key.to_string(), value.to_string())]),
        ..Default::default()
    }
}

fn wait_path(path: PathBuf) -> TestCaseConfig {
    TestCaseConfig {
        wait: Some(TestCaseWait {
            timeout: Duration::from_secs(5),
            path: Some(path),
        }),
        ..Default::default()
    }
}

fn report(problems: Vec<Option<String>>) {
    let problems = problems.into_iter().flatten().collect::<Vec<_>>();
    for problem in &problems {
        println!("VIOLATION {problem}");
    }
    assert!(problems.is_empty(), "{} configuration(s) did not survive", problems.len());
}

/// 1: characters that YAML does not allow raw (JSON does) make the one-liner unreadable
#[test]
fn repro_1() {
    report(vec![
        roundtrip("env DEL U+007F", &env("FOO", "a\u{7f}b")),
        roundtrip("env C1 U+0080", &env("FOO", "a\u{80}b")),
        roundtrip("env C1 U+009F", &env("FOO", "caf\u{9f}")),
        roundtrip("env U+FFFE", &env("FOO", "a\u{fffe}b")),
        roundtrip("env U+FFFF", &env("FOO", "a\u{ffff}b")),
        roundtrip("wait path DEL", &wait_path("/tmp/a\u{7f}b".into())),
    ]);
}

/// 2: raw Unicode line breaks (NEL, LS, PS) are folded like line breaks of a
///    multi-line double-quoted scalar: values are silently changed
#[test]
fn repro_2() {
    report(vec![
        roundtrip("env NEL", &env("FOO", "a\u{85}b")),
        roundtrip("env NEL NEL", &env("FOO", "a\u{85}\u{85}b")),
        roundtrip("env space LS", &env("FOO", "a \u{2028}b")),
        roundtrip("env LS space", &env("FOO", "a\u{2028} b")),
        roundtrip("env trailing space after PS", &env("FOO", "a\u{2029} ")),
        roundtrip("env tab PS", &env("FOO", "a\t\u{2029}b")),
        roundtrip("wait path NEL", &wait_path("/tmp/a\u{85}b".into())),
    ]);
}

/// 3: a backtick in a rendered value makes the fence line no fence line anymore
#[test]
fn repro_3() {
    report(vec![
        roundtrip("env backtick", &env("FOO", "a`b")),
        roundtrip("env command substitution look-alike", &env("FOO", "`date`")),
        roundtrip("wait path backtick", &wait_path("/tmp/`x`".into())),
    ]);
}

/// 4: environment variable names are written without any quoting
#[test]
fn repro_4() {
    report(vec![
        roundtrip("key with comma", &env("A,B", "v")),
        roundtrip("key with colon+space", &env("A: B", "v")),
        roundtrip("key with brace", &env("A}B", "v")),
        roundtrip("key with ' #'", &env("A #B", "v")),
        roundtrip("key starting with ?", &env("?A", "v")),
        roundtrip("key starting with &", &env("&A", "v")),
        roundtrip("key starting with !", &env("!A", "v")),
        roundtrip("key starting with *", &env("*A", "v")),
        roundtrip("key starting with [", &env("[A", "v")),
        roundtrip("key starting with \"", &env("\"A", "v")),
        roundtrip("empty key", &env("", "v")),
    ]);
}

/// 5: a wait path that is not valid UTF-8 is silently replaced (U+FFFD)
#[cfg(unix)]
#[test]
fn repro_5() {
    use std::ffi::OsString;
    use std::os::unix::ffi::OsStringExt;
    let path = PathBuf::from(OsString::from_vec(b"/tmp/\xff\xfe".to_vec()));
    report(vec![roundtrip("wait path bytes ff fe", &wait_path(path))]);
}
