#!/bin/bash
# (adjacent to the property: configured environment value, not the shell expression)
# the text `{state_directory}` in a configured environment variable value is replaced
# by the runner when it renders its template
. "$(dirname "$0")/repro_common.sh"
cat > "$WORK/r12_env.md" <<'DOC'
# placeholder look-alike in environment value

```scrut {environment: {TEMPLATE: "{state_directory}/x"}}
$ echo "$TEMPLATE"
{state_directory}/x
```
DOC
check r12_env.md
exit $FAILED
