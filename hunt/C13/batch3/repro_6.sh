#!/bin/bash
# text of an earlier shell expression (here-document in a function body, multi-line
# alias value) is rewritten on its way into the next test: lines that begin with
# `declare -f`, `alias `, `set `, `shopt ` get `\builtin ` put in front
. "$(dirname "$0")/repro_common.sh"
cat > "$WORK/r6_heredoc.md" <<'DOC'
# function with here-document

```scrut
$ usage() {
> cat <<EOT
> declare -f name   print a function
> EOT
> }
> usage
declare -f name   print a function
```

```scrut
$ usage
declare -f name   print a function
```
DOC
cat > "$WORK/r6_alias.md" <<'DOC'
# multi-line alias

```scrut
$ alias help='echo "commands:
> set x
> alias y
> shopt z"'
> help
commands:
set x
alias y
shopt z
```

```scrut
$ help
commands:
set x
alias y
shopt z
```
DOC
check r6_heredoc.md; check r6_alias.md
exit $FAILED
