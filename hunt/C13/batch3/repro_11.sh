#!/bin/bash
# scrut started with a locale in LC_ALL that is not installed: scrut documents LC_ALL=C
# for tests, but in single-script mode it is only exported inside the script, so bash
# starts with the inherited value and its start-up warning becomes output of test 1
. "$(dirname "$0")/repro_common.sh"
cat > "$WORK/r11_locale.t" <<'DOC'
Plain test:

  $ echo one
  one

  $ echo two
  two
DOC
cat > "$WORK/r11_locale.md" <<'DOC'
# same as markdown (per-process mode), for comparison

```scrut {output_stream: combined}
$ echo one
one
```
DOC
check r11_locale.md LC_ALL=xx_YY.UTF-8; check r11_locale.t LC_ALL=xx_YY.UTF-8
exit $FAILED
