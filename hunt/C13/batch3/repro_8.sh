#!/bin/bash
# the epilogue scrut runs in the shell of the test depends on variables the test may
# have made read-only or unset: `readonly IFS`, "unset every variable"
. "$(dirname "$0")/repro_common.sh"
cat > "$WORK/r8_readonly_ifs.md" <<'DOC'
# readonly IFS

```scrut {output_stream: combined}
$ readonly IFS; echo hi
hi
```

```scrut {output_stream: combined}
$ echo second
second
```
DOC
cat > "$WORK/r8_unset_all.md" <<'DOC'
# start from a clean slate of variables

```scrut {output_stream: combined}
$ for v in $(compgen -v); do unset "$v"; done 2>/dev/null; echo cleared
cleared
```
DOC
check r8_readonly_ifs.md; check r8_unset_all.md
exit $FAILED
