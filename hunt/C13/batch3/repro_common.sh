# sourced by repro_<n>.sh: CO = checkout, SCRUT = binary (built when missing)
CO="${1:-/tmp/h_C13}"
SCRUT="$CO/target/debug/scrut"
if [ ! -x "$SCRUT" ]; then
    (cd "$CO" && cargo build --offline --bin scrut >/dev/null 2>&1) || { echo "cannot build scrut" >&2; exit 99; }
fi
WORK="$(mktemp -d /tmp/c13_repro.XXXXXX)"
trap 'rm -rf "$WORK"' EXIT
FAILED=0
# check <file> [env assignments...]: runs `scrut test <file>`; the documents state
# what the property demands, so a failing document = violated property
check() {
    local file="$1"; shift
    if (cd "$WORK" && env "$@" "$SCRUT" test "$file" >"$WORK/$file.log" 2>&1); then
        echo "HOLDS    $file"
    else
        echo "VIOLATED $file"
        grep -vE '^ +[0-9]+: |^ +at ' "$WORK/$file.log" | head -n 25 | cut -c1-220 | sed 's/^/    | /'
        FAILED=1
    fi
}
