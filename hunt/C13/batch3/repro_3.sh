#!/bin/bash
# a function named `builtin` replaces the word scrut relies on to protect its own commands
. "$(dirname "$0")/repro_common.sh"
cat > "$WORK/r3_builtin.md" <<'DOC'
# function named builtin

```scrut {output_stream: combined}
$ function builtin { echo FAKE; }; echo hi
hi
```

```scrut {output_stream: combined}
$ echo second
second
```
DOC
cat > "$WORK/r3_builtin.t" <<'DOC'
A function named builtin:

  $ function builtin { printf 'FAKE\n'; }

  $ echo second; (exit 4)
  second
  [4]
DOC
cat > "$WORK/r3_persist.md" <<'DOC'
# function named like the one of scrut (defined, never called by the test)

```scrut {output_stream: combined}
$ function __scrut_persist_state { echo PWNED; }; echo hi
hi
```
DOC
check r3_builtin.md; check r3_builtin.t; check r3_persist.md
exit $FAILED
