#!/bin/bash
# single-script mode: with history enabled, `history` prints the divider lines of scrut
# (with the random salt); scrut parses that output as dividers and fails the document
. "$(dirname "$0")/repro_common.sh"
cat > "$WORK/r7_history.t" <<'DOC'
History:

  $ set -o history

  $ echo a
  a

  $ history | grep -v export | tail -n 3
  * (glob+)

  $ echo last
  last
DOC
check r7_history.t
exit $FAILED
