#!/bin/bash
# single-script mode with separated streams (--no-combine-output): a test that merges
# stderr into stdout for the rest of the file (`exec 2>&1`) makes scrut fail the document
. "$(dirname "$0")/repro_common.sh"
cat > "$WORK/r13_exec.t" <<'DOC'
Merge the streams from here on:

  $ exec 2>&1

  $ echo out; echo err >&2
  out
  err
DOC
if (cd "$WORK" && "$SCRUT" test --no-combine-output r13_exec.t >"$WORK/r13.log" 2>&1); then
    echo "HOLDS    r13_exec.t"
else
    echo "VIOLATED r13_exec.t (--no-combine-output)"
    grep -vE '^ +[0-9]+: |^ +at ' "$WORK/r13.log" | head -n 12 | cut -c1-220 | sed 's/^/    | /'
    FAILED=1
fi
exit $FAILED
