#!/bin/bash
# a function / alias named `export` (or an alias `[[`) defined by a test is run by
# the unprotected lines scrut puts in front of every later test
. "$(dirname "$0")/repro_common.sh"
cat > "$WORK/r2_function.md" <<'DOC'
# function named export

```scrut
$ function export { echo "EXPORT-CALLED $*"; }
```

```scrut {output_stream: combined}
$ echo second
second
```
DOC
cat > "$WORK/r2_alias.md" <<'DOC'
# alias named export

```scrut
$ alias export='echo ALIAS-CALLED'
```

```scrut {output_stream: combined}
$ echo second
second
```
DOC
cat > "$WORK/r2_bracket.md" <<'DOC'
# alias named [[

```scrut
$ alias '[['='echo BRACKET'
```

```scrut {output_stream: combined}
$ echo second
second
```
DOC
cat > "$WORK/r2_function.t" <<'DOC'
A function named export:

  $ function export { echo "EXPORT-CALLED"; }

  $ echo second
  second
DOC
check r2_function.md; check r2_alias.md; check r2_bracket.md; check r2_function.t
exit $FAILED
