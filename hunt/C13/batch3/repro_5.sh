#!/bin/bash
# `set -r` (restricted shell): the epilogue of scrut fails loudly on the test's stderr
. "$(dirname "$0")/repro_common.sh"
cat > "$WORK/r5_restricted.md" <<'DOC'
# set -r

```scrut {output_stream: combined}
$ set -r; echo hi
hi
```
DOC
check r5_restricted.md
exit $FAILED
