#!/bin/bash
# resource limits set by the test hit the epilogue of scrut: its messages end up in
# the stderr of the test, with `ulimit -n` also the exit code changes
. "$(dirname "$0")/repro_common.sh"
cat > "$WORK/r10_fsize.md" <<'DOC'
# ulimit -f 0

```scrut {output_stream: combined}
$ ulimit -f 0; echo hi
hi
```
DOC
cat > "$WORK/r10_nofile.md" <<'DOC'
# ulimit -n 4

```scrut {output_stream: combined}
$ ulimit -n 4; echo hi
hi
```
DOC
check r10_fsize.md; check r10_nofile.md
exit $FAILED
