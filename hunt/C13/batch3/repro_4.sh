#!/bin/bash
# `set -k` (keyword) in one test: scrut's `export NAME=VALUE` lines in front of every
# later test become a bare `export`, which lists all exported variables into the output
. "$(dirname "$0")/repro_common.sh"
cat > "$WORK/r4_keyword.md" <<'DOC'
# set -k

```scrut
$ set -k; echo first
first
```

```scrut {output_stream: combined}
$ echo second
second
```
DOC
cat > "$WORK/r4_keyword.t" <<'DOC'
set -k:

  $ set -k; echo first
  first

  $ echo second
  second
DOC
cat > "$WORK/r4_plain.md" <<'DOC'
# nothing special in the document: keyword option inherited from the environment

```scrut {output_stream: combined}
$ echo only
only
```
DOC
check r4_keyword.md; check r4_keyword.t; check r4_plain.md SHELLOPTS=keyword
exit $FAILED
