#!/bin/bash
# an assignment bash complains about once is replayed when scrut restores the variables
# in front of every later test: the complaint lands in the stderr of those tests, too
# (a single shell would print it once, in the test that makes the assignment)
. "$(dirname "$0")/repro_common.sh"
cat > "$WORK/r9_xtracefd.md" <<'DOC'
# invalid BASH_XTRACEFD

```scrut
$ BASH_XTRACEFD=99; echo first
first
```

```scrut {output_stream: combined}
$ echo second
second
```
DOC
cat > "$WORK/r9_compat.md" <<'DOC'
# invalid BASH_COMPAT

```scrut
$ BASH_COMPAT=abc; echo first
first
```

```scrut {output_stream: combined}
$ echo second
second
```
DOC
check r9_xtracefd.md; check r9_compat.md
exit $FAILED
