#!/bin/bash
# `enable -n <builtin>` in a test: scrut's own `builtin <name>` calls fail
. "$(dirname "$0")/repro_common.sh"
cat > "$WORK/r1_declare.md" <<'DOC'
# enable -n declare

```scrut {output_stream: combined}
$ enable -n declare; echo hi
hi
```
DOC
cat > "$WORK/r1_exit.md" <<'DOC'
# enable -n exit

```scrut {output_stream: combined}
$ enable -n exit; echo hi; sh -c 'exit 7'
hi
[7]
```
DOC
cat > "$WORK/r1_echo.t" <<'DOC'
Disable the echo builtin (the external one is used from then on):

  $ enable -n echo; printf 'hi\n'
  hi

  $ printf 'second\n'
  second
DOC
check r1_declare.md; check r1_exit.md; check r1_echo.t
exit $FAILED
