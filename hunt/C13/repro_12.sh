#!/bin/bash
# usage: repro_N.sh [checkout]   exit 0 = property holds for this input, non-zero = violated
CO=${1:-/tmp/h_C13}
BIN="$CO/target/debug/scrut"
if [ ! -x "$BIN" ]; then (cd "$CO" && cargo build --offline --bin scrut >/dev/null 2>&1) || { echo "build failed"; exit 99; }; fi
W=$(mktemp -d /tmp/c13repro.XXXXXX); trap 'rm -rf "$W"' EXIT
cd "$W" || exit 99
export RUST_BACKTRACE=0
# Markdown mode: temp directory whose name contains a double quote / a template placeholder
cat > t.md <<'DOC'
# tmpdir

```scrut {output_stream: combined}
$ echo hi; echo $(echo sub >&2)
hi
sub

```
DOC
rc=0
mkdir -p "$W/q\"q" "$W/x{shell_expression}y"
echo "--- control (plain TMPDIR)"; TMPDIR="$W" "$BIN" test t.md 2>&1 | tail -1
echo "--- TMPDIR with a double quote"; TMPDIR="$W/q\"q" "$BIN" test t.md 2>&1 | cut -c1-160 | tail -12; [ ${PIPESTATUS[0]} -eq 0 ] || rc=1
echo "--- TMPDIR with {shell_expression}"; TMPDIR="$W/x{shell_expression}y" "$BIN" test t.md 2>&1 | cut -c1-160 | tail -12; [ ${PIPESTATUS[0]} -eq 0 ] || rc=1
exit $rc
