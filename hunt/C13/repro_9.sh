#!/bin/bash
# usage: repro_N.sh [checkout]   exit 0 = property holds for this input, non-zero = violated
CO=${1:-/tmp/h_C13}
BIN="$CO/target/debug/scrut"
if [ ! -x "$BIN" ]; then (cd "$CO" && cargo build --offline --bin scrut >/dev/null 2>&1) || { echo "build failed"; exit 99; }; fi
W=$(mktemp -d /tmp/c13repro.XXXXXX); trap 'rm -rf "$W"' EXIT
cd "$W" || exit 99
export RUST_BACKTRACE=0
# Markdown mode: the shell exits (exit 3) while more than a pipe buffer (64 KiB) of the
# expression is still unread -> recorded as a timeout instead of exit code 3
{
  printf '# early exit\n\n```scrut\n$ echo start; exit 3\n> : <<EOT\n'
  for i in $(seq 1 6000); do echo "> padding padding padding padding $i"; done
  printf '> EOT\nstart\n[3]\n```\n'
} > t.md
"$BIN" test t.md 2>&1 | grep -v '^// >' | cut -c1-200 | tail -15
exit ${PIPESTATUS[0]}
