#!/bin/bash
# usage: repro_N.sh [checkout]   exit 0 = property holds for this input, non-zero = violated
CO=${1:-/tmp/h_C13}
BIN="$CO/target/debug/scrut"
if [ ! -x "$BIN" ]; then (cd "$CO" && cargo build --offline --bin scrut >/dev/null 2>&1) || { echo "build failed"; exit 99; }; fi
W=$(mktemp -d /tmp/c13repro.XXXXXX); trap 'rm -rf "$W"' EXIT
cd "$W" || exit 99
export RUST_BACKTRACE=0
# Cram mode: `set -x` stays on while scrut's divider `echo` runs -> the document cannot be executed at all
cat > t.t <<'DOC'
xtrace:

  $ set -x; echo hi
  + echo hi
  hi

  $ set +x; echo two
  + set +x
  two
DOC
"$BIN" test t.t 2>&1 | cut -c1-200 | head -30
exit ${PIPESTATUS[0]}
