#!/bin/bash
# usage: repro_N.sh [checkout]   exit 0 = property holds for this input, non-zero = violated
CO=${1:-/tmp/h_C13}
BIN="$CO/target/debug/scrut"
if [ ! -x "$BIN" ]; then (cd "$CO" && cargo build --offline --bin scrut >/dev/null 2>&1) || { echo "build failed"; exit 99; }; fi
W=$(mktemp -d /tmp/c13repro.XXXXXX); trap 'rm -rf "$W"' EXIT
cd "$W" || exit 99
export RUST_BACKTRACE=0
# Cram mode: the test defines a function (or alias) called echo
cat > t.t <<'DOC'
echo wrapper:

  $ echo() { printf 'E:%s\n' "$*"; }; echo hi
  E:hi

  $ echo two
  E:two
DOC
"$BIN" test t.t 2>&1 | cut -c1-200 | head -30
exit ${PIPESTATUS[0]}
