#!/bin/bash
# usage: repro_N.sh [checkout]   exit 0 = property holds for this input, non-zero = violated
CO=${1:-/tmp/h_C13}
BIN="$CO/target/debug/scrut"
if [ ! -x "$BIN" ]; then (cd "$CO" && cargo build --offline --bin scrut >/dev/null 2>&1) || { echo "build failed"; exit 99; }; fi
W=$(mktemp -d /tmp/c13repro.XXXXXX); trap 'rm -rf "$W"' EXIT
cd "$W" || exit 99
export RUST_BACKTRACE=0
# strip_ansi_escaping is honoured by the per-process executor but ignored by the single-script one
cat > t.md <<'DOC'
# ansi

```scrut {strip_ansi_escaping: true}
$ printf "\033[1mbold\033[0m\n"
bold
```
DOC
echo "--- control (Markdown mode)"; "$BIN" test t.md 2>&1 | tail -1
echo "--- --cram-compat"; "$BIN" test --cram-compat t.md 2>&1 | cut -c1-160 | tail -10
exit ${PIPESTATUS[0]}
