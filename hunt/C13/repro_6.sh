#!/bin/bash
# usage: repro_N.sh [checkout]   exit 0 = property holds for this input, non-zero = violated
CO=${1:-/tmp/h_C13}
BIN="$CO/target/debug/scrut"
if [ ! -x "$BIN" ]; then (cd "$CO" && cargo build --offline --bin scrut >/dev/null 2>&1) || { echo "build failed"; exit 99; }; fi
W=$(mktemp -d /tmp/c13repro.XXXXXX); trap 'rm -rf "$W"' EXIT
cd "$W" || exit 99
export RUST_BACKTRACE=0
# DEBUG trap: bash -c 'trap "echo dbg" DEBUG; echo hi' prints "dbg", "hi" -- checked in both modes
cat > t.md <<'DOC'
# debug trap

```scrut
$ trap 'echo dbg' DEBUG; echo hi
dbg
hi
```
DOC
cat > t.t <<'DOC'
debug trap:

  $ trap 'echo dbg' DEBUG; echo hi
  dbg
  hi
DOC
rc=0
"$BIN" test t.md 2>&1 | cut -c1-200 | head -30; [ ${PIPESTATUS[0]} -eq 0 ] || rc=1
"$BIN" test t.t 2>&1 | cut -c1-200 | head -30; [ ${PIPESTATUS[0]} -eq 0 ] || rc=1
exit $rc
