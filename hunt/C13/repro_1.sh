#!/bin/bash
# usage: repro_N.sh [checkout]   exit 0 = property holds for this input, non-zero = violated
CO=${1:-/tmp/h_C13}
BIN="$CO/target/debug/scrut"
if [ ! -x "$BIN" ]; then (cd "$CO" && cargo build --offline --bin scrut >/dev/null 2>&1) || { echo "build failed"; exit 99; }; fi
W=$(mktemp -d /tmp/c13repro.XXXXXX); trap 'rm -rf "$W"' EXIT
cd "$W" || exit 99
export RUST_BACKTRACE=0
# Markdown mode: `set -x` -- what bash writes for the test's own command is "+ echo hi" and "hi".
cat > t.md <<'DOC'
# xtrace

```scrut {output_stream: combined}
$ set -x; echo hi
+ echo hi
hi
```
DOC
"$BIN" test t.md 2>&1 | cut -c1-160 | head -30
exit ${PIPESTATUS[0]}
