#!/bin/bash
# C18 finding 2c: a directory tree deeper than the open-file limit cannot be removed
# (remove_dir_all keeps one descriptor per level -> EMFILE); the error is swallowed.
. "$(dirname "$0")/_common.sh"
cat > "$W/docs/deep.md" <<'DOC'
# deep tree

```scrut
$ for i in $(seq 300); do mkdir d && cd d || break; done; echo $i
300
```
DOC
ulimit -n 256
TMPDIR="$W/tmp" "$S" test "$W/docs/deep.md" >/dev/null 2>&1
echo "scrut exit=$?"
left="$(find "$W/tmp" -mindepth 1 -maxdepth 2)"
if [ -n "$left" ]; then echo "remaining:"; echo "$left"; verdict 1; fi
verdict 0
