#!/bin/bash
# C18 finding 2a: run as an unprivileged user, a test that leaves a read-only directory behind
# makes the removal of the work directory fail; the error is swallowed, scrut exits 0 and
# execution.XXXXXX stays.
. "$(dirname "$0")/_common.sh"
cat > "$W/docs/perm.md" <<'DOC'
# read-only directory

```scrut
$ mkdir ro && touch ro/file && chmod 555 ro
```
DOC
chmod 777 "$W/tmp"
if [ "$(id -u)" -eq 0 ]; then
  command -v setpriv >/dev/null || { echo "need setpriv to drop root" >&2; exit 99; }
  DROP="setpriv --reuid=65534 --regid=65534 --clear-groups"
else
  DROP=""
fi
$DROP env TMPDIR="$W/tmp" HOME="$W/tmp" "$S" test "$W/docs/perm.md" >/dev/null 2>&1
echo "scrut exit=$?"
left="$(find "$W/tmp" -mindepth 1)"
if [ -n "$left" ]; then echo "remaining:"; echo "$left"; verdict 1; fi
verdict 0
