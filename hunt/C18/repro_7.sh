#!/bin/bash
# C18 finding 5: for test cases that come from a prepended/appended document SCRUT_TEST is
# "<path of the MAIN document>:<line in the OTHER document>", a location that does not exist.
. "$(dirname "$0")/_common.sh"
cat > "$W/docs/pre.md" <<'DOC'
# pre

filler

filler

filler

```scrut
$ echo "$SCRUT_TEST"
```
DOC
cat > "$W/docs/main.md" <<'DOC'
# main

```scrut
$ true
```
DOC
cd "$W/docs"
out="$(TMPDIR="$W/tmp" "$S" test --prepend-test-file-paths pre.md -- main.md 2>&1)"
val="$(echo "$out" | sed -n 's/^ *1  | + //p' | head -1)"
echo "SCRUT_TEST seen by the test case of pre.md (line 10): $val"
path="${val%:*}"; line="${val##*:}"
total="$(wc -l < "$path" 2>/dev/null || echo 0)"
echo "$path has $total lines"
# <path>:<line> must be the location of the test case
if [ "$path" = "pre.md" ] && [ "$line" = "10" ]; then verdict 0; fi
verdict 1
