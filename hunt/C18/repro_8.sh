#!/bin/bash
# C18 finding 6 (Cram executor): variables are "set afresh" by `export NAME=value` lines inside
# the one shell all test cases share, which an earlier test case can defeat (readonly, a function
# named export); SHELL is not set again at all.
. "$(dirname "$0")/_common.sh"
cat > "$W/docs/ro.t" <<'DOC'
  $ readonly TMPDIR=/evil; SHELL=/x

  $ echo "$TMPDIR $SHELL"
  *TMPDIR: readonly variable (glob)
  /evil /x
DOC
cat > "$W/docs/fn.t" <<'DOC'
  $ export() { :; }; TMPDIR=/evil; LANG=de; unset TESTDIR

  $ echo "[$TESTDIR|$TMPDIR|$LANG]"
  [|/evil|de]
DOC
bad=0
for d in ro fn; do
  out="$(TMPDIR="$W/tmp" "$S" test --combine-output "$W/docs/$d.t" 2>&1)"; rc=$?
  echo "$out" | grep -v '^//' | grep . | tail -6
  # the documents pass exactly if the variables were NOT set afresh
  if [ $rc -eq 0 ]; then echo "$d.t: second test case saw the values of the first"; bad=1; fi
done
verdict $bad
