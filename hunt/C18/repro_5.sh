#!/bin/bash
# C18 finding 3: with --work-directory all documents of a run share one working directory
# (the property demands a working directory "that no other document of the run shares",
# quantified "with and without --work-directory").
. "$(dirname "$0")/_common.sh"
cat > "$W/docs/one.md" <<'DOC'
# one

```scrut
$ touch marker-of-one; echo ok
ok
```
DOC
cat > "$W/docs/two.md" <<'DOC'
# two

```scrut
$ pwd >&2; ls | grep -c marker-of-one
0
```
DOC
mkdir "$W/wd"
out="$(TMPDIR="$W/tmp" "$S" test --work-directory "$W/wd" "$W/docs/one.md" "$W/docs/two.md" 2>&1)"
rc=$?
echo "scrut exit=$rc"
# document two expects not to see what document one wrote into its working directory
if [ $rc -ne 0 ]; then echo "$out" | grep -v '^//' | head -20; verdict 1; fi
verdict 0
