#!/bin/bash
# "{state_directory}" in a path: the value of TESTFILE / SCRUT_TEST / TMPDIR that the test sees is rewritten
. "$(dirname "$0")/common.sh"
mkdir -p "$S/doc" "$S/tmp/{state_directory}"
cat > "$S/doc/x{state_directory}.md" <<'DOC'
```scrut
$ test -f "$TESTDIR/$TESTFILE" && echo file-ok || echo "file-missing: $TESTFILE"; test -f "${SCRUT_TEST%:*}" && echo st-ok || echo "st-missing: $SCRUT_TEST"; test -d "$TMPDIR" && echo tmp-ok || echo "tmp-missing: $TMPDIR"
file-ok
st-ok
tmp-ok
```
DOC
out=$(TMPDIR="$S/tmp/{state_directory}" "$SCRUT" test "$S/doc/x{state_directory}.md" 2>&1); rc=$?
echo "scrut rc=$rc"
if [ $rc -ne 0 ]; then echo "VIOLATED:"; echo "$out" | grep -E '^\s+[0-9]+\s+\| \+'; exit 1; fi
echo "holds"; exit 0
