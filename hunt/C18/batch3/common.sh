# sourced by the repro scripts: sets SCRUT, builds if needed, makes a scratch dir
CHECKOUT=${1:-/tmp/h_C18}
SCRUT=$CHECKOUT/target/debug/scrut
if [ ! -x "$SCRUT" ]; then (cd "$CHECKOUT" && cargo build --offline --bin scrut >/dev/null 2>&1) || { echo "build failed"; exit 99; }; fi
unset BASH_ENV
S=$(mktemp -d /tmp/c18repro.XXXXXX) || exit 99
cleanup() { chattr -R -i "$S" 2>/dev/null; for m in $(awk '{print $2}' /proc/mounts | grep "^$S" | sort -r); do umount "$m" 2>/dev/null; done; rm -rf "$S"; }
trap cleanup EXIT
