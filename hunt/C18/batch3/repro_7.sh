#!/bin/bash
# Cram document: SHELL (documented together with LANG, TZ, COLUMNS ... as "same as TESTSHELL") is not set anew for the next test case
. "$(dirname "$0")/common.sh"
mkdir -p "$S/doc" "$S/tmp"
cat > "$S/doc/t.t" <<'DOC'
  $ SHELL=/bin/false; LANG=de_DE
  $ test "$SHELL" = "$TESTSHELL" && echo shell-ok || echo "shell-stale: $SHELL"; echo "$LANG"
  shell-ok
  C
DOC
out=$(TMPDIR=$S/tmp "$SCRUT" test "$S/doc/t.t" 2>&1); rc=$?
echo "scrut rc=$rc"
if [ $rc -ne 0 ]; then echo "VIOLATED:"; echo "$out" | grep -E '^\s+[0-9]+\s+\| \+'; exit 1; fi
echo "holds"; exit 0
