#!/bin/bash
# as root: a test leaves an immutable file -> the work directory remains after exit, silently (exit code 0, no message)
. "$(dirname "$0")/common.sh"
mkdir -p "$S/doc" "$S/tmp"
touch "$S/probe"; if ! chattr +i "$S/probe" 2>/dev/null; then echo "SKIP: chattr +i not possible here"; exit 0; fi; chattr -i "$S/probe"
cat > "$S/doc/t.md" <<'DOC'
```scrut
$ touch keep && chattr +i keep && echo ok
ok
```
DOC
out=$(TMPDIR=$S/tmp "$SCRUT" test "$S/doc/t.md" 2>&1); echo "scrut rc=$?"
left=$(find "$S/tmp" -mindepth 1)
if [ -n "$left" ]; then echo "VIOLATED: left behind after exit:"; echo "$left"; echo "$out" | grep -i -E "warn|error|remove" ; exit 1; fi
echo "holds"; exit 0
