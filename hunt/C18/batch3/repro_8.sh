#!/bin/bash
# Cram document (VARIANTS OF THE KNOWN readonly / function-export CLASS): variable attributes, nameref, disabled builtin
. "$(dirname "$0")/common.sh"
mkdir -p "$S/doc" "$S/tmp"
cat > "$S/doc/a.t" <<'DOC'
  $ declare -u TMPDIR
  $ test -d "$TMPDIR" && echo ok || echo "bad: $TMPDIR"
  ok
DOC
cat > "$S/doc/b.t" <<'DOC'
  $ enable -n export; TMPDIR=/x
  $ test -d "$TMPDIR" && echo ok || echo "bad: $TMPDIR"
  ok
DOC
cat > "$S/doc/c.t" <<'DOC'
  $ unset TMPDIR; declare -n TMPDIR=foo
  $ env | grep -c ^TMPDIR=
  1
DOC
out=$(TMPDIR=$S/tmp "$SCRUT" test "$S/doc/a.t" "$S/doc/b.t" "$S/doc/c.t" 2>&1); rc=$?
echo "scrut rc=$rc"
if [ $rc -ne 0 ]; then echo "VIOLATED:"; echo "$out" | grep -E '^\s+[0-9]+\s+\| \+|^#> '; exit 1; fi
echo "holds"; exit 0
