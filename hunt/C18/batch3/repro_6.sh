#!/bin/bash
# as root: a test mounts something inside its work directory -> the work directory remains after exit, silently
. "$(dirname "$0")/common.sh"
mkdir -p "$S/doc" "$S/tmp" "$S/probe"
if ! mount -t tmpfs none "$S/probe" 2>/dev/null; then echo "SKIP: mount not possible here"; exit 0; fi; umount "$S/probe"
cat > "$S/doc/t.md" <<'DOC'
```scrut
$ mkdir m && mount -t tmpfs none m && echo ok
ok
```
DOC
out=$(TMPDIR=$S/tmp "$SCRUT" test "$S/doc/t.md" 2>&1); echo "scrut rc=$?"
left=$(find "$S/tmp" -mindepth 1)
if [ -n "$left" ]; then echo "VIOLATED: left behind after exit:"; echo "$left"; exit 1; fi
echo "holds"; exit 0
