#!/bin/bash
# non-UTF-8 TMPDIR: scrut leaves a directory tree behind (and TMPDIR of the test is not the directory scrut cleans up)
. "$(dirname "$0")/common.sh"
BASE="$S/base"$'\xff'           # the system temp directory scrut is given, name not valid UTF-8
mkdir -p "$BASE" "$S/doc"
cat > "$S/doc/t.md" <<'DOC'
```scrut
$ echo one
one
```

```scrut
$ echo two
two
```
DOC
TMPDIR=$BASE "$SCRUT" test "$S/doc/t.md" >/dev/null 2>&1
echo "scrut rc=$?"
left=$(find "$S" -mindepth 1 ! -path "$S/doc*" ! -path "$BASE" | cat -v)
if [ -n "$left" ]; then echo "VIOLATED: left behind after exit:"; echo "$left"; exit 1; fi
echo "holds"; exit 0
