#!/bin/bash
# document in a directory / with a file name that is not valid UTF-8: TESTDIR, TESTFILE, SCRUT_TEST do not name the document
. "$(dirname "$0")/common.sh"
D="$S/dir"$'\xff'
mkdir -p "$D" "$S/tmp"
cat > "$D/t"$'\xfe'".md" <<'DOC'
```scrut
$ test -d "$TESTDIR" && echo dir-ok || echo dir-missing; test -f "$TESTDIR/$TESTFILE" && echo file-ok || echo file-missing; test -f "${SCRUT_TEST%:*}" && echo st-ok || echo st-missing
dir-ok
file-ok
st-ok
```
DOC
out=$(TMPDIR=$S/tmp "$SCRUT" test "$D/t"$'\xfe'".md" 2>&1); rc=$?
echo "scrut rc=$rc"
if [ $rc -ne 0 ]; then echo "VIOLATED:"; echo "$out" | grep -E '^\s+[0-9]+\s+\| \+'; exit 1; fi
echo "holds"; exit 0
