#!/bin/bash
# environment: BASH_ENV is inherited by the test shells; what it does to the directory is not undone (variables are)
. "$(dirname "$0")/common.sh"
mkdir -p "$S/doc" "$S/tmp"
echo 'cd /; export TMPDIR=/bad COLUMNS=7' > "$S/benv.sh"
cat > "$S/doc/a.md" <<'DOC'
```scrut
$ echo "$TMPDIR" | grep -c /bad; echo $COLUMNS; case "$PWD" in */execution.*/a.md) echo workdir-ok;; *) echo "workdir: $PWD";; esac
0
80
workdir-ok
```
DOC
out=$(env BASH_ENV="$S/benv.sh" TMPDIR=$S/tmp "$SCRUT" test "$S/doc/a.md" 2>&1); rc=$?
echo "scrut rc=$rc"
if [ $rc -ne 0 ]; then echo "VIOLATED:"; echo "$out" | grep -E '^\s+[0-9]+\s+\| \+'; exit 1; fi
echo "holds"; exit 0
