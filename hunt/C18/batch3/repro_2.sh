#!/bin/bash
# non-UTF-8 --work-directory: a directory created by scrut's shell template remains next to it
. "$(dirname "$0")/common.sh"
W="$S/wd"$'\xfe'
mkdir -p "$W" "$S/doc" "$S/tmp"
cat > "$S/doc/t.md" <<'DOC'
```scrut
$ echo one
one
```
DOC
TMPDIR=$S/tmp "$SCRUT" test --work-directory "$W" "$S/doc/t.md" >/dev/null 2>&1
echo "scrut rc=$?"
left=$(find "$S" -mindepth 1 ! -path "$S/doc*" ! -path "$W" ! -path "$S/tmp" | cat -v)
if [ -n "$left" ]; then echo "VIOLATED: left behind after exit:"; echo "$left"; exit 1; fi
echo "holds"; exit 0
