#!/bin/bash
# C18 finding 2b: a process started by a test that outlives the shell (background job, child of a
# timed-out test, detached test case) and keeps creating files makes the removal of the work
# directory fail (ENOTEMPTY); the error is swallowed and the directory stays.
. "$(dirname "$0")/_common.sh"
cat > "$W/docs/bg.md" <<'DOC'
# background writer that outlives the document

```scrut
$ ( end=$((SECONDS+3)); while [ $SECONDS -lt $end ]; do : > "f$RANDOM" 2>/dev/null; done ) >/dev/null 2>&1 &
```

```scrut
$ echo done
done
```
DOC
cat > "$W/docs/to.md" <<'DOC'
# child of a timed-out test keeps writing

```scrut {timeout: 300ms}
$ ( end=$((SECONDS+3)); while [ $SECONDS -lt $end ]; do : > "f$RANDOM" 2>/dev/null; done ) & sleep 10
```
DOC
cat > "$W/docs/det.md" <<'DOC'
# detached

```scrut {detached: true}
$ end=$((SECONDS+3)); while [ $SECONDS -lt $end ]; do : > "$TMPDIR/f$RANDOM" 2>/dev/null; done
```

```scrut
$ sleep 0.2; echo done
done
```
DOC
bad=0
for d in bg to det; do
  mkdir "$W/tmp/$d"
  TMPDIR="$W/tmp/$d" "$S" test "$W/docs/$d.md" >/dev/null 2>&1
  echo "$d: scrut exit=$?"
done
sleep 3.5   # let the writers end
for d in bg to det; do
  left="$(find "$W/tmp/$d" -mindepth 1 -maxdepth 2)"
  if [ -n "$left" ]; then echo "$d: remaining after scrut exited:"; echo "$left"; bad=1; fi
done
verdict $bad
