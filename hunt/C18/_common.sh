# sourced by the repro scripts
CO="${1:-/tmp/h_C18}"
S="$CO/target/debug/scrut"
if [ ! -x "$S" ]; then (cd "$CO" && cargo build --offline --bin scrut >/dev/null 2>&1) || { echo "cannot build scrut" >&2; exit 99; }; fi
W="$(mktemp -d /tmp/c18repro.XXXXXX)"
chmod 755 "$W"
trap 'chmod -R u+rwx "$W" 2>/dev/null; rm -rf "$W"' EXIT
mkdir "$W/tmp" "$W/docs"
verdict() { # $1 = 0 holds / 1 violated
  if [ "$1" -eq 0 ]; then echo "HOLDS"; else echo "VIOLATED"; fi; exit "$1"
}
