#!/bin/bash
# C18 finding 4: a Markdown document run with --cram-compat does not get SCRUT_TEST.
. "$(dirname "$0")/_common.sh"
cat > "$W/docs/main.md" <<'DOC'
# main

```scrut
$ echo "SCRUT_TEST=[$SCRUT_TEST]"
SCRUT_TEST=[*main.md:4] (glob)
```
DOC
TMPDIR="$W/tmp" "$S" test "$W/docs/main.md" >/dev/null 2>&1 || { echo "baseline (no --cram-compat) failed?!"; exit 99; }
out="$(TMPDIR="$W/tmp" "$S" test --cram-compat "$W/docs/main.md" 2>&1)"
rc=$?
echo "scrut --cram-compat exit=$rc"
if [ $rc -ne 0 ]; then echo "$out" | grep -v '^//' | head -12; verdict 1; fi
verdict 0
