#!/bin/bash
# C18 finding 1: a `$` (or backtick, quote, "{name}") in the path of the work/temp directory is
# interpreted by the generated bash script; scrut's own `mkdir -p` creates a directory elsewhere
# which is never removed.
. "$(dirname "$0")/_common.sh"
cat > "$W/docs/ok.md" <<'DOC'
# ok

```scrut
$ echo hi
hi
```
DOC
cd "$W"
mkdir 'wd$x'
TMPDIR="$W/tmp" "$S" test --work-directory 'wd$x' docs/ok.md >/dev/null 2>&1
echo "scrut exit=$?"
bad=0
# the given work directory is kept, the temp directory inside it must be gone ...
[ -z "$(ls -A 'wd$x')" ] || { echo "left in given work directory:"; find 'wd$x'; bad=1; }
# ... and nothing else may have been created
if [ -e "$W/wd" ]; then echo "directory created by scrut's script remains:"; find "$W/wd"; bad=1; fi
# same through TMPDIR (default mode, no --work-directory)
mkdir "$W/t\$HOME"
TMPDIR="$W/t\$HOME" "$S" test docs/ok.md >/dev/null 2>&1
if [ -e "$W/t" ]; then echo "directory created by scrut's script remains (TMPDIR case):"; find "$W/t"; bad=1; fi
verdict $bad
