// Reproductions for C19 (copy to <checkout>/tests/repro_c19.rs; run with
// `cargo test --offline --test repro_c19 <name>`).
// Every test PASSES when the property holds and FAILS when it is violated.
use std::panic::catch_unwind;
use std::panic::AssertUnwindSafe;

use scrut::diff::Diff;
use scrut::diff::DiffLine;
use scrut::escaping::Escaper;
use scrut::expectation::Expectation;
use scrut::expectation::ExpectationMaker;
use scrut::outcome::Outcome;
use scrut::parsers::parser::ParserType;
use scrut::renderers::diff::DiffRenderer;
use scrut::renderers::pretty::PrettyColorRenderer;
use scrut::renderers::pretty::PrettyMonochromeRenderer;
use scrut::renderers::renderer::Renderer;
use scrut::renderers::structured::JsonRenderer;
use scrut::renderers::structured::YamlRenderer;
use scrut::rules::registry::RuleRegistry;
use scrut::testcase::TestCase;
use scrut::testcase::TestCaseError;

fn exp(line: &str) -> Expectation {
    ExpectationMaker::new(RuleRegistry::default())
        .parse(line)
        .expect("parse expectation")
}

fn outcome(
    location: Option<&str>,
    line_number: usize,
    expectations: Vec<Expectation>,
    result: Result<(), TestCaseError>,
) -> Outcome {
    Outcome {
        location: location.map(|s| s.to_string()),
        output: ("x\n", "", Some(0)).into(),
        testcase: TestCase {
            title: "title".into(),
            shell_expression: "cmd".into(),
            expectations,
            exit_code: None,
            line_number,
            ..Default::default()
        },
        format: ParserType::Markdown,
        escaping: Escaper::Unicode,
        result,
    }
}

fn pretty(outcomes: &[&Outcome], absolute: bool) -> Result<String, String> {
    let r = PrettyMonochromeRenderer::new(PrettyColorRenderer {
        max_surrounding_lines: 5,
        absolute_line_numbers: absolute,
        summarize: true,
    });
    match catch_unwind(AssertUnwindSafe(|| r.render(outcomes))) {
        Err(_) => Err("PANIC".into()),
        Ok(Err(e)) => Err(format!("ERR {e:#}")),
        Ok(Ok(s)) => Ok(s),
    }
}

fn with<R: Renderer>(r: R, outcomes: &[&Outcome]) -> Result<String, String> {
    match catch_unwind(AssertUnwindSafe(|| r.render(outcomes))) {
        Err(_) => Err("PANIC".into()),
        Ok(Err(e)) => Err(format!("ERR {e:#}")),
        Ok(Ok(s)) => Ok(s),
    }
}

/// 1a: an unexpected line whose index is larger than the number of lines in
/// the diff (here: a diff that only holds the 100th line of output)
#[test]
fn repro_1_line_index_beyond_count() {
    let o = outcome(
        Some("doc.md"),
        3,
        vec![exp("a")],
        Err(TestCaseError::MalformedOutput(Diff::new(vec![
            DiffLine::UnexpectedLines {
                lines: vec![(99, b"x\n".to_vec())],
            },
        ]))),
    );
    let rendered = pretty(&[&o], false).expect("pretty renders any diff shape");
    assert!(rendered.contains("| + x"), "{rendered}");
}

/// 1b: an unmatched expectation whose index is larger than the number of
/// expectations of the test case
#[test]
fn repro_1_expectation_index_beyond_count() {
    let o = outcome(
        Some("doc.md"),
        3,
        vec![exp("a")],
        Err(TestCaseError::MalformedOutput(Diff::new(vec![
            DiffLine::UnmatchedExpectation {
                index: 99,
                expectation: exp("a"),
            },
        ]))),
    );
    let rendered = pretty(&[&o], false).expect("pretty renders any diff shape");
    assert!(rendered.contains("| - a"), "{rendered}");
}

/// 2: a matched single-line (e.g. optional) expectation that carries no lines
#[test]
fn repro_2_matched_without_lines() {
    let o = outcome(
        Some("doc.md"),
        3,
        vec![exp("a (?)"), exp("b")],
        Err(TestCaseError::MalformedOutput(Diff::new(vec![
            DiffLine::MatchedExpectation {
                index: 0,
                expectation: exp("a (?)"),
                lines: vec![],
            },
            DiffLine::UnexpectedLines {
                lines: vec![(0, b"x\n".to_vec())],
            },
            DiffLine::UnmatchedExpectation {
                index: 1,
                expectation: exp("b"),
            },
        ]))),
    );
    let rendered = pretty(&[&o], false).expect("pretty renders any diff shape");
    assert!(rendered.contains("| + x"), "{rendered}");
    assert!(rendered.contains("| - b"), "{rendered}");
}

/// 3: outcomes of which only some have a location
#[test]
fn repro_3_mixed_locations() {
    let with_location = outcome(
        Some("doc.md"),
        3,
        vec![exp("a")],
        Err(TestCaseError::MalformedOutput(Diff::new(vec![
            DiffLine::UnmatchedExpectation {
                index: 0,
                expectation: exp("a"),
            },
        ]))),
    );
    let without_location = outcome(
        None,
        3,
        vec![exp("b")],
        Err(TestCaseError::MalformedOutput(Diff::new(vec![
            DiffLine::UnmatchedExpectation {
                index: 0,
                expectation: exp("b"),
            },
        ]))),
    );
    // pretty, json, yaml all render this list
    pretty(&[&with_location, &without_location], false).expect("pretty");
    with(JsonRenderer::new(false), &[&with_location, &without_location]).expect("json");
    with(YamlRenderer::new(), &[&with_location, &without_location]).expect("yaml");
    let rendered = with(DiffRenderer::new(), &[&with_location, &without_location])
        .expect("diff renders any list of outcomes");
    assert!(rendered.contains("\n-a\n"), "{rendered}");
    assert!(rendered.contains("\n-b\n"), "{rendered}");
}

/// 4: a test case configuration with a wait path that is not UTF-8
#[cfg(unix)]
#[test]
fn repro_4_non_utf8_wait_path() {
    use std::os::unix::ffi::OsStrExt;
    use std::time::Duration;

    use scrut::config::TestCaseWait;

    let mut o = outcome(Some("doc.md"), 3, vec![exp("a")], Err(TestCaseError::Timeout));
    o.testcase.config.wait = Some(TestCaseWait {
        timeout: Duration::from_secs(1),
        path: Some(std::ffi::OsStr::from_bytes(b"/tmp/\xff").into()),
    });
    pretty(&[&o], false).expect("pretty");
    with(DiffRenderer::new(), &[&o]).expect("diff");
    let json = with(JsonRenderer::new(false), &[&o]).expect("json renders any outcome");
    assert!(json.contains("\"kind\":\"timeout\""), "{json}");
    let yaml = with(YamlRenderer::new(), &[&o]).expect("yaml renders any outcome");
    assert!(yaml.contains("kind: timeout"), "{yaml}");
}

/// 5: a line number at the end of the number range (absolute line numbers)
#[test]
fn repro_5_line_number_overflow() {
    let o = outcome(
        Some("doc.md"),
        usize::MAX,
        vec![exp("a")],
        Err(TestCaseError::MalformedOutput(Diff::new(vec![
            DiffLine::UnmatchedExpectation {
                index: 0,
                expectation: exp("a"),
            },
        ]))),
    );
    pretty(&[&o], false).expect("pretty with relative line numbers");
    let d = with(DiffRenderer::new(), &[&o]);
    let p = pretty(&[&o], true);
    assert!(d.is_ok(), "diff: {d:?}");
    assert!(p.is_ok(), "pretty with absolute line numbers: {p:?}");
}

/// 6: "many" surrounding lines: the largest value of the option, as one would
/// use to ask for all matched lines to be shown
#[test]
fn repro_6_surrounding_lines_max() {
    use scrut::output::ExitStatus;
    use scrut::output::Output;

    let testcase = TestCase {
        title: "title".into(),
        shell_expression: "cmd".into(),
        expectations: vec![exp("a"), exp("x"), exp("c"), exp("d")],
        exit_code: None,
        line_number: 3,
        ..Default::default()
    };
    let output = Output {
        stdout: b"a\nb\nc\nd\n".to_vec().into(),
        stderr: b"".to_vec().into(),
        exit_code: ExitStatus::Code(0),
    };
    let result = testcase.validate(&output);
    assert!(matches!(result, Err(TestCaseError::MalformedOutput(_))));
    let o = Outcome {
        location: Some("doc.md".into()),
        output,
        testcase,
        format: ParserType::Markdown,
        escaping: Escaper::Unicode,
        result,
    };
    let renderer = PrettyColorRenderer {
        max_surrounding_lines: usize::MAX,
        absolute_line_numbers: false,
        summarize: true,
    };
    let rendered = with(renderer, &[&o]).expect("pretty renders with any number of surrounding lines");
    assert!(rendered.contains("| - x"), "{rendered}");
    assert!(rendered.contains("| + b"), "{rendered}");
}
