#!/bin/bash
# C19 reproduction 1: exits 0 if the property holds, non-zero if violated.
# usage: repro_1.sh [checkout]   (default /tmp/h_C19)
here=$(cd "$(dirname "$0")" && pwd)
checkout=${1:-/tmp/h_C19}
mkdir -p "$checkout/tests"
cp "$here/repro_c19.rs" "$checkout/tests/repro_c19_1.rs"
(cd "$checkout" && RUST_BACKTRACE=0 cargo test --offline --test repro_c19_1 repro_1_ 2>&1 | grep -v '^warning\|^ *|\|^ *= \|^ *-->\|^$' | tail -40; exit ${PIPESTATUS[0]})
rc=$?
rm -f "$checkout/tests/repro_c19_1.rs"
rmdir "$checkout/tests" 2>/dev/null
exit $rc
