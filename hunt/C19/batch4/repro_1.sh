#!/bin/bash
# exits 0 if property holds (pretty rendering distinguishes / contains both lines), non-zero if violated
CO="${1:-/tmp/h_C19}"
S="$CO/target/debug/scrut"
[ -x "$S" ] || (cd "$CO" && cargo build --offline --bin scrut >/dev/null 2>&1)
W=$(mktemp -d)
# expectation: foo + U+2003 (EM SPACE); output: foo + U+3000 (IDEOGRAPHIC SPACE)
printf '# T\n\n```scrut\n$ printf "foo\\xe3\\x80\\x80\\n"\nfoo\xe2\x80\x83\n```\n' > "$W/ws.md"
OUT=$(cd "$W" && "$S" test --no-color -r pretty ws.md 2>&1)
echo "$OUT"
MINUS=$(echo "$OUT" | grep -E '\| - ' | sed 's/.*| - //')
PLUS=$(echo "$OUT" | grep -E '\| \+ ' | sed 's/.*| + //')
rm -r "$W"
if [ -n "$MINUS" ] && [ "$MINUS" = "$PLUS" ]; then
  echo "VIOLATED: unmatched expectation and unexpected line render identically: '$MINUS'"
  exit 1
fi
exit 0
