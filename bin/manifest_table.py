HOOK_COMMITS = []
NOTES = "Model checking = bounded exhaustive exploration of the real code against reference models; see DESIGN.md. Exit 0 held / 1 violation / >=2 machinery failure."
ENGINES = [
    {"name": "vc_diff", "path": "harness/src/engines/vc_diff.rs", "serves_properties": ["C01", "C02", "C03"],
     "kind_free_text": "stateless exhaustive enumeration of (match matrix x quantifier vector) through DiffTool::diff / TestCase::validate, oracle = position NFA"},
]
ALL = ["C%02d" % i for i in range(1, 21)]
CHECKS = [
    {"id": "C01", "engine": "vc_diff", "category": "exploration", "design_ref": "DESIGN.md §2 C01-C03",
     "technique": "bounded exhaustive enumeration of match matrices x quantifier vectors through the real DiffTool, compared with an NFA reference model",
     "text": "Every expectation list x output up to the stated (n,m) bound (as boolean match matrix x quantifier vector, plus words over all rule kinds with/without final newline) is run through the real DiffTool::diff and TestCase::validate; a reported match must be accepted by the position NFA of e1{q1}..en{qn}. Exhaustive within the bound.",
     "note": "bounded in number of expectations/lines; diff depends on input only via matches/optional/multiline; rule semantics are C04's"},
    {"id": "C02", "engine": "vc_diff", "category": "exploration", "design_ref": "DESIGN.md §2 C01-C03",
     "technique": "bounded exhaustive enumeration of match matrices x quantifier vectors; structural conservation invariant on every Diff",
     "text": "For every case of the same exhaustive space the call must return (watchdog, catch_unwind) and the Diff must mention each output line exactly once in order, each non-optional expectation exactly once, optional at most once, in order, with really-matching lines and consistent counters.",
     "note": "bounded in number of expectations/lines"},
    {"id": "C03", "engine": "vc_diff", "category": "exploration", "design_ref": "DESIGN.md §2 C01-C03",
     "technique": "bounded exhaustive enumeration; determinism computed on the NFA reference model; exact verdict agreement on deterministic cases",
     "text": "On every case of the exhaustive space that satisfies the one-line-lookahead determinism condition (computed on the reference NFA) the implementation's verdict must equal NFA acceptance.",
     "note": "bounded in number of expectations/lines"},
]
claimed = {c["id"] for c in CHECKS}
NOT_APPLICABLE = [{"property_id": p, "reason": "check not built yet (work in progress; planned in DESIGN.md)"} for p in ALL if p not in claimed]
