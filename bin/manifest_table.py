HOOK_COMMITS = []
NOTES = "Model checking = bounded exhaustive exploration of the real code against reference models; see DESIGN.md. Exit 0 held / 1 violation / >=2 machinery failure."
ENGINES = [
    {"name": "vc_rules", "path": "harness/src/engines/vc_rules.rs", "serves_properties": ["C04"],
     "kind_free_text": "stateless exhaustive enumeration of (expression x line) per rule kind vs reference matchers"},
    {"name": "vc_diff", "path": "harness/src/engines/vc_diff.rs", "serves_properties": ["C01", "C02", "C03"],
     "kind_free_text": "stateless exhaustive enumeration of (match matrix x quantifier vector) through DiffTool::diff / TestCase::validate, oracle = position NFA"},
]
ALL = ["C%02d" % i for i in range(1, 21)]
CHECKS = [
    {"id": "C01", "engine": "vc_diff", "category": "exploration", "design_ref": "DESIGN.md §2 C01-C03",
     "technique": "bounded exhaustive enumeration of match matrices x quantifier vectors through the real DiffTool, compared with an NFA reference model",
     "text": "Every expectation list x output up to the stated (n,m) bound (as boolean match matrix x quantifier vector, plus words over all rule kinds with/without final newline) is run through the real DiffTool::diff and TestCase::validate; a reported match must be accepted by the position NFA of e1{q1}..en{qn}. Exhaustive within the bound.",
     "note": "bounded in number of expectations/lines; diff depends on input only via matches/optional/multiline; rule semantics are C04's"},
    {"id": "C02", "engine": "vc_diff", "category": "exploration", "design_ref": "DESIGN.md §2 C01-C03",
     "technique": "bounded exhaustive enumeration of match matrices x quantifier vectors; structural conservation invariant on every Diff",
     "text": "For every case of the same exhaustive space the call must return (watchdog, catch_unwind) and the Diff must mention each output line exactly once in order, each non-optional expectation exactly once, optional at most once, in order, with really-matching lines and consistent counters.",
     "note": "bounded in number of expectations/lines"},
    {"id": "C03", "engine": "vc_diff", "category": "exploration", "design_ref": "DESIGN.md §2 C01-C03",
     "technique": "bounded exhaustive enumeration; determinism computed on the NFA reference model; exact verdict agreement on deterministic cases",
     "text": "On every case of the exhaustive space that satisfies the one-line-lookahead determinism condition (computed on the reference NFA) the implementation's verdict must equal NFA acceptance.",
     "note": "bounded in number of expectations/lines"},
]
CHECKS.append(
    {"id": "C04", "engine": "vc_rules", "category": "exploration", "design_ref": "DESIGN.md §2 C04",
     "technique": "bounded exhaustive enumeration of expressions (strings / regex ASTs) x candidate lines per rule kind against independent reference matchers",
     "text": "Per rule kind every expression up to the stated size (regex: every AST, so top-level alternation and nesting occur) is parsed by the real ExpectationMaker (default and cram-compat registries) and evaluated on every candidate line of its family; the verdict must equal an independent reference matcher (byte equality, one-pass escape decoder, textbook glob, backtracking whole-line regex matcher).",
     "note": "bounded expression/line length over focused alphabets; third-party regex/wildmatch syntax outside the alphabets not explored"})
claimed = {c["id"] for c in CHECKS}
NOT_APPLICABLE = [{"property_id": p, "reason": "check not built yet (work in progress; planned in DESIGN.md)"} for p in ALL if p not in claimed]
