HOOK_COMMITS = ["e2d838b verif hook (cfg scrut_verif): virtual clock for the stateful executor", "53255b4 verif hook: verif_clock::Instant covers the rest of std::time::Instant's API (so that changes using checked_duration_since/elapsed/- still compile under the guard)"]
NOTES = "Model checking = bounded exhaustive exploration of the real code against reference models; see DESIGN.md. Exit 0 held / 1 violation / >=2 machinery failure."
ENGINES = [
    {"name": "vc_cli", "path": "harness/src/engines/vc_cli.rs", "serves_properties": ["C15", "C18", "C20"],
     "kind_free_text": "exhaustive scenario enumeration through the real scrut binary (sandboxed TMPDIR/HOME/process group) vs reference"},
    {"name": "vc_timeout", "path": "harness/src/engines/vc_timeout.rs", "serves_properties": ["C14"],
     "kind_free_text": "virtual-clock exploration of the real executor with a fake Runner vs timeline model; real-time replays through the binary"},
    {"name": "vc_verdict", "path": "harness/src/engines/vc_verdict.rs", "serves_properties": ["C05"],
     "kind_free_text": "exhaustive verdict table + exhaustive short documents through the scrut binary"},
    {"name": "vc_state", "path": "harness/src/engines/vc_state.rs", "serves_properties": ["C12"],
     "kind_free_text": "explicit-state BFS with state deduplication; implementation = real executor + bash, reference model = one bash session"},
    {"name": "vc_io", "path": "harness/src/engines/vc_io.rs", "serves_properties": ["C13"],
     "kind_free_text": "exhaustive enumeration of payload/stream/code/settings/executor tuples and short test-case sequences through real executors + bash"},
    {"name": "vc_render", "path": "harness/src/engines/vc_render.rs", "serves_properties": ["C19"],
     "kind_free_text": "stateless exhaustive enumeration of outcome lists x renderer parameters through the four renderers"},
    {"name": "vc_update", "path": "harness/src/engines/vc_update.rs", "serves_properties": ["C10"],
     "kind_free_text": "stateless exhaustive enumeration of documents x outcome vectors x repeated update application"},
    {"name": "vc_gen", "path": "harness/src/engines/vc_gen.rs", "serves_properties": ["C09"],
     "kind_free_text": "stateless exhaustive enumeration of outputs x settings through generators -> parsers -> validate"},
    {"name": "vc_md", "path": "harness/src/engines/vc_md.rs", "serves_properties": ["C06"],
     "kind_free_text": "stateless exhaustive enumeration of Markdown documents vs reference tokenizer (harness/src/refmodel/mdtok.rs)"},
    {"name": "vc_cram", "path": "harness/src/engines/vc_cram.rs", "serves_properties": ["C07"],
     "kind_free_text": "stateless exhaustive enumeration of Cram documents vs reference tokenizer (harness/src/refmodel/cramtok.rs)"},
    {"name": "vc_config", "path": "harness/src/engines/vc_config.rs", "serves_properties": ["C16", "C17"],
     "kind_free_text": "stateless exhaustive enumeration of layer assignments / configurations through real merge, render and parse code"},
    {"name": "vc_expect", "path": "harness/src/engines/vc_expect.rs", "serves_properties": ["C08"],
     "kind_free_text": "stateless exhaustive enumeration of suffix-grammar words vs reference grammar + round trip"},
    {"name": "vc_escape", "path": "harness/src/engines/vc_escape.rs", "serves_properties": ["C11"],
     "kind_free_text": "stateless exhaustive enumeration of bytes / pairs / scalars / short strings through both escapers with parse-back"},
    {"name": "vc_rules", "path": "harness/src/engines/vc_rules.rs", "serves_properties": ["C04"],
     "kind_free_text": "stateless exhaustive enumeration of (expression x line) per rule kind vs reference matchers"},
    {"name": "vc_diff", "path": "harness/src/engines/vc_diff.rs", "serves_properties": ["C01", "C02", "C03"],
     "kind_free_text": "stateless exhaustive enumeration of (match matrix x quantifier vector) through DiffTool::diff / TestCase::validate, oracle = position NFA"},
]
ALL = ["C%02d" % i for i in range(1, 21)]
CHECKS = [
    {"id": "C01", "engine": "vc_diff", "category": "exploration", "design_ref": "DESIGN.md §2 C01-C03",
     "technique": "bounded exhaustive enumeration of match matrices x quantifier vectors through the real DiffTool, compared with an NFA reference model",
     "text": "Every expectation list x output up to the stated (n,m) bound (as boolean match matrix x quantifier vector, plus words over all rule kinds with/without final newline) is run through the real DiffTool::diff and TestCase::validate; a reported match must be accepted by the position NFA of e1{q1}..en{qn}. Exhaustive within the bound.",
     "note": "bounded in number of expectations/lines; diff depends on input only via matches/optional/multiline; rule semantics are C04's"},
    {"id": "C02", "engine": "vc_diff", "category": "exploration", "design_ref": "DESIGN.md §2 C01-C03",
     "technique": "bounded exhaustive enumeration of match matrices x quantifier vectors; structural conservation invariant on every Diff",
     "text": "For every case of the same exhaustive space the call must return (watchdog, catch_unwind) and the Diff must mention each output line exactly once in order, each non-optional expectation exactly once, optional at most once, in order, with really-matching lines and consistent counters.",
     "note": "bounded in number of expectations/lines"},
    {"id": "C03", "engine": "vc_diff", "category": "exploration", "design_ref": "DESIGN.md §2 C01-C03",
     "technique": "bounded exhaustive enumeration; determinism computed on the NFA reference model; exact verdict agreement on deterministic cases",
     "text": "On every case of the exhaustive space that satisfies the one-line-lookahead determinism condition (computed on the reference NFA) the implementation's verdict must equal NFA acceptance.",
     "note": "bounded in number of expectations/lines"},
]
CHECKS.append(
    {"id": "C04", "engine": "vc_rules", "category": "exploration", "design_ref": "DESIGN.md §2 C04",
     "technique": "bounded exhaustive enumeration of expressions (strings / regex ASTs) x candidate lines per rule kind against independent reference matchers",
     "text": "Per rule kind every expression up to the stated size (regex: every AST, so top-level alternation and nesting occur) is parsed by the real ExpectationMaker (default and cram-compat registries) and evaluated on every candidate line of its family; the verdict must equal an independent reference matcher (byte equality, one-pass escape decoder, textbook glob, backtracking whole-line regex matcher).",
     "note": "bounded expression/line length over focused alphabets; third-party regex/wildmatch syntax outside the alphabets not explored"})
CHECKS.append(
    {"id": "C08", "engine": "vc_expect", "category": "exploration", "design_ref": "DESIGN.md §2 C08",
     "technique": "bounded exhaustive enumeration of all words of the expectation suffix grammar through the real parser, compared with a reference grammar; render/parse round trip on each",
     "text": "Every line base . s1 .. sk (k<=2 quick, <=3 thorough) over all kinds/aliases x quantifiers plus malformed look-alikes is parsed by the real ExpectationMaker: no panic, errors only for malformed regex/escaped expressions, kind/quantifier/expression equal to an independently written reference grammar; then rendered under both escapers, re-parsed and compared on quantifier and on matching over a probe set of line contents.",
     "note": "single-space separator only; probe-set based equivalence for the round trip; five recorded known findings (Cram-compat `(no-eol)` stripping, no syntax for escaped regex/no-eol)"})
CHECKS.append(
    {"id": "C11", "engine": "vc_escape", "category": "exploration", "design_ref": "DESIGN.md §2 C11",
     "technique": "exhaustive enumeration of all bytes, all byte pairs, all Unicode scalars and all short strings over a focused alphabet through both escapers, with real parse-back",
     "text": "For every enumerated line under both escapers (with and without final LF) the written text must be printable (ASCII 0x20-0x7E / no Unicode category C per the regex crate's tables) and, parsed back by the real ExpectationMaker as the kind it is marked with, must decode to exactly the original bytes.",
     "note": "Unicode classification from the regex crate's tables; strings bounded to length 4/5 over 15 symbols"})
CHECKS.append(
    {"id": "C16", "engine": "vc_config", "category": "exploration", "design_ref": "DESIGN.md §2 C16",
     "technique": "exhaustive enumeration of layer assignments ({unset,v1,v2} per key per layer, singly and for every key pair) through the real merge functions and the real Markdown parser, oracle 'first layer that sets it'",
     "text": "All 3^4 assignments per key and 3^8 per key pair (9 keys incl. two environment variables) are merged with the real with_defaults_from/with_overrides_from in the composition used by the parser and `scrut test`, all 3^10 DocumentConfig assignments likewise, and the same layers written as front-matter + inline config are read back through MarkdownParser on Markdown and Cram bases; result must equal 'highest-precedence layer that sets the key', layering must be associative with the empty layer as identity, prepend/append must accumulate in order.",
     "note": "value alphabet of two values per key; command-line layer through the binary is covered by vc_cli when built"})
CHECKS.append(
    {"id": "C17", "engine": "vc_config", "category": "exploration", "design_ref": "DESIGN.md §2 C17",
     "technique": "exhaustive enumeration of configurations (all key subsets; each key's full value alphabet; value pairs) through render -> real parser round trips",
     "text": "Every enumerated TestCaseConfig/DocumentConfig is rendered by to_yaml_one_liner (placed after the fence language as the generator does) and by serde_yaml (also as front-matter) and read back by the real MarkdownParser / serde; the result must equal the original (after layering on the format default).",
     "note": "value alphabets as listed in the evidence bound; environment variable names are plain identifiers"})
CHECKS.append(
    {"id": "C06", "engine": "vc_md", "category": "exploration", "design_ref": "DESIGN.md §2 C06",
     "technique": "bounded exhaustive enumeration of Markdown documents (all line sequences over 24 line kinds; all segment sequences with every truncation) through the real MarkdownParser, compared with an independently written reference tokenizer",
     "text": "Every document of the two exhaustive families (LF and CRLF) is parsed by the real MarkdownParser::parse: no panic, no hang, and the result is Err or exactly the reference tokenizer's tests (shell expression, expectation lines, exit code, inline config layered on front-matter defaults, 1-based `$` line, title when unambiguous); unterminated fences/front-matter must be reported or read to the end.",
     "note": "bounded document length over a line-kind alphabet; constructs the docs do not define only have to not crash (counted as unspecified); Err always acceptable"})
CHECKS.append(
    {"id": "C07", "engine": "vc_cram", "category": "exploration", "design_ref": "DESIGN.md §2 C07",
     "technique": "bounded exhaustive enumeration of Cram documents (all line sequences over 17 line kinds, deeper on an 8-kind core) through the real CramParser vs a reference tokenizer",
     "text": "Every line sequence up to the bound (LF, CRLF, with/without final newline) is parsed by the real CramParser (cram-compat expectation maker): no panic, and Err or exactly one test per indented `$` line with the reference's command, continuations, expectation lines (two spaces removed, other whitespace kept), exit code, title, line number and the Cram default config.",
     "note": "bounded document length; tests directly preceded by orphan body lines are unspecified and not compared; Err always acceptable"})
CHECKS.append(
    {"id": "C09", "engine": "vc_gen", "category": "exploration", "design_ref": "DESIGN.md §2 C09",
     "technique": "bounded exhaustive enumeration of outputs (line sequences over 24 syntax-colliding / binary line kinds) x exit codes x commands x formats x escapers x create/update/convert through the real generators, parsers and validate",
     "text": "For every enumerated output, exit code, command shape, format, escaper and path the real generator (create, update from a stale document, convert to the other format) writes a document; it must parse with the real parser to exactly one test with the same shell expression, and that test must validate Ok against the very same Output.",
     "note": "in-process (Output constructed directly); bounded output length (2 / 3 lines) over the stated line alphabet"})
CHECKS.append(
    {"id": "C10", "engine": "vc_update", "category": "exploration", "design_ref": "DESIGN.md §2 C10",
     "technique": "bounded exhaustive enumeration of (document, per-test outcome vector) with repeated application of the real MarkdownUpdateGenerator; invariants judged with the reference tokenizer",
     "text": "Every accepted document of the segment family (with truncations) x every outcome vector over {pass, changed output, changed exit code, unterminated output, exit code 0 instead of the expected one, output with fence look-alikes, first expected line gone} is updated by the real generator with outcomes from the real validate, three times in a row: lines outside scrut blocks, block languages/configs/comments and the bodies of passing tests must be preserved, the result must re-parse to the same commands, and the 2nd and 3rd application must change nothing.",
     "note": "Markdown update generator in-process; documents up to 2/3 segments (three-segment documents over a core subset); outputs synthesised per outcome class, also with stderr as the validated stream; end-to-end documents with real commands through `scrut update` twice and `scrut test`"})
CHECKS.append(
    {"id": "C19", "engine": "vc_render", "category": "exploration", "design_ref": "DESIGN.md §2 C19",
     "technique": "bounded exhaustive enumeration of outcome lists (diffs produced by the real validate over a text alphabet of multi-byte / wide / control / long lines) x renderer settings through all four real renderers, with structural oracles on the rendering",
     "text": "Every enumerated outcome list is rendered by pretty (colour and monochrome), diff, json and yaml: no panic, Ok(text); pretty and diff must show exactly one +/- line per unexpected line / unmatched expectation of each failed test containing its text, no section for passed tests, a summary that adds up; json/yaml must parse back to one entry per outcome with the right result kind.",
     "note": "lists with mixed location presence excluded; needle text computed with scrut's own escaper (C11 covers it); also hand-built diff shapes, outcomes sharing one line number, and unescaped text with escape-sequence introducers rendered with colours off"})
CHECKS.append(
    {"id": "C13", "engine": "vc_io", "category": "exploration", "design_ref": "DESIGN.md §2 C13",
     "technique": "bounded exhaustive enumeration of (payload x stream x exit code x settings x executor) and of test-case sequences through the real executors with the real bash, compared with a byte-exact reference of the documented transformations",
     "text": "Every combination of the payload alphabet (binary, CRLF shapes, ANSI, divider look-alikes, unterminated lines, ...), target stream, exit code, output_stream/keep_crlf/strip_ansi setting and executor (per-process and single-script) is executed with /bin/bash; recorded stdout/stderr/exit code must equal the reference exactly, per test case also in sequences; placeholder-looking and quote-heavy text must reach the shell verbatim; replace_crlf is compared with an iterative reference on all short byte strings and at sizes up to 10^6 line endings.",
     "note": "/bin/bash of this image; sizes at decades; expressions that change what scrut's own scaffolding depends on (IFS, PATH, functions named like its commands, set -k); shell tracing of scrut's own commands recorded as known finding"})
CHECKS.append(
    {"id": "C12", "engine": "vc_state", "category": "model_checking", "design_ref": "DESIGN.md §2 C12",
     "technique": "explicit-state breadth-first search over canonical shell states (deduplicated on the reference probe output); every transition executed on the real StatefulExecutor+BashRunner with real bash and compared with a single-bash-session reference model",
     "text": "States are canonical probe outputs of one bash session; from every reached state every snippet of the 64-snippet alphabet is applied; each transition is run through the real executor (one bash process per test case, state file in between) and its probe output must equal that of ONE bash session fed the same snippets (detached snippets omitted there). Reports states, transitions and that every transition was validated against the implementation.",
     "note": "/bin/bash of this image; depth-bounded (quick: all transitions from states at depth < 2; thorough: < 3, then < 4 over a 14-snippet core alphabet); -x/-v excluded; with errexit on, snippets that can fail are not taken (no single-session equivalent); a test case's own EXIT trap recorded as known finding"})
CHECKS.append(
    {"id": "C05", "engine": "vc_verdict", "category": "exploration", "design_ref": "DESIGN.md §2 C05",
     "technique": "exhaustive enumeration of the verdict table (exit status x expected code x stream x acceptance) through the real validate, and of all short documents over command behaviours (incl. death by signal) through the real binary",
     "text": "All 2240 rows of the verdict table are evaluated by the real TestCase::validate (pass iff Code(c), c = expected or 0, and the selected stream accepted; wrong code reported as such whatever the output; no status without exit code ever passes); every document of 1..2 (quick) / 1..3 (thorough) test cases over 16 command behaviours (incl. redefining `exit`, `set -t`, `set -n`) is run in Markdown and Cram through `scrut test -r json` and the per-test kinds and the process exit status are compared with the reference.",
     "note": "/bin/bash of this image; acceptance of streams itself is C01-C03; plus the stream the verdict is taken on, end to end (defaults x inline x flag x placement of the expected line)"})
CHECKS.append(
    {"id": "C14", "engine": "vc_timeout", "category": "model_checking", "design_ref": "DESIGN.md §2 C14",
     "technique": "exhaustive exploration of the executor's timeline under a virtual clock (hook) with a fake Runner against a reference timeline model, plus real-time conformance replays of model traces through the scrut binary",
     "text": "Every document of 1..3 test cases over duration x per-test timeout x wait x document limit is run through the real StatefulExecutor::execute_all under a virtual clock; which limit fires, at which test, with how many outputs and at what virtual time must equal the reference timeline, and execution never extends beyond the document limit. The model's traces are replayed in real time through `scrut test` (kinds timeout/skipped, exit status 50, wall time within [limit, limit+1.5 s], no timeout for fast commands, timed-out shell terminated).",
     "note": "virtual clock hook H1 (cfg scrut_verif) in stateful_executor.rs; real time only by replays (L1); surviving grandchildren of a timed out shell, an output flood that is not interrupted and an exit with unread script reported as timeout recorded as known findings (the latter two: pipe handling of the subprocess crate)"})
CHECKS.append(
    {"id": "C15", "engine": "vc_cli", "category": "exploration", "design_ref": "DESIGN.md §2 C15",
     "technique": "exhaustive enumeration of short documents (position and kind of the skipping test case x skip-code setting x format x second document) through the real scrut binary against a reference",
     "text": "Every Markdown/Cram document up to the bound over pass/fail/exit-80/exit-81 (with and without the code being expected) is run with default, front-matter and inline skip codes, alone and next to an ordinary document, through `scrut test -r json`; per-test kinds must be all `skipped` exactly when some executed test case exits with its own skip code, otherwise none is skipped, and the process exit status must follow (a skipped document never fails the run).",
     "note": "documents of up to 2 (quick) / 3 (thorough) test cases; /bin/bash of this image"})
CHECKS.append(
    {"id": "C18", "engine": "vc_cli", "category": "fault_enumeration", "design_ref": "DESIGN.md §2 C18",
     "technique": "exhaustive enumeration of runs over outcome classes (incl. early aborts) x flags x format mixes through the real scrut binary in a private TMPDIR, observing work directories, environment and left-over directories",
     "text": "Every run of 1..2 (quick) / 1..3 (thorough) documents over 7 outcome classes (success, validation failure, timeout, skip, parse error, script exit error, non-executable shell) x {none, --work-directory, --keep-temporary-directories} x Markdown/Cram x equal/different file names is executed; every test case records pwd and the documented variables: one work directory per document, never shared, variables as documented and set afresh after a test case tampered with them, and after exit the private TMPDIR is empty (or holds only the kept directories / the given work directory is intact without temp.*).",
     "note": "several scrut processes at the same time only as free-running sampling (L2), labelled in the evidence"})
CHECKS.append(
    {"id": "C20", "engine": "vc_cli", "category": "exploration", "design_ref": "DESIGN.md §2 C20",
     "technique": "exhaustive enumeration of runs (documents x behaviours x prepend/append variants x error classes) through the real scrut binary, with an execution log written by the test commands themselves",
     "text": "Every scenario up to the bound is run twice (json and pretty renderer); each command appends its identity to a log before doing anything else: the log must hold every reached test case exactly once in document order with prepends first and appends last, json must hold exactly one result per non-detached test case (at most one per detached one), the pretty summary must add up, and the exit status must be 1 for the error classes, else 50 iff some test failed or timed out, else 0.",
     "note": "order of documents within a directory argument is not promised and compared per document"})
claimed = {c["id"] for c in CHECKS}
NOT_APPLICABLE = [{"property_id": p, "reason": "check not built yet (work in progress; planned in DESIGN.md)"} for p in ALL if p not in claimed]
